//! Native replay helper, built with plain cargo against the unmodified crate (guard off,
//! std containers) in dev and release.  Used to scale solver-found recursion shapes to
//! datagram size on a 2 MiB thread (C01) and to run recorded histories.
use netflow_parser::{NetflowPacket, NetflowParser};

fn be16(v: u16) -> [u8; 2] {
    v.to_be_bytes()
}
fn ipfix_hdr(len: u16) -> Vec<u8> {
    let mut b = vec![0, 10];
    b.extend(be16(len));
    b.extend([0u8; 12]);
    b
}

fn on_small_stack<F: FnOnce() -> String + Send + 'static>(f: F) {
    let h = std::thread::Builder::new().stack_size(2 * 1024 * 1024).spawn(f).unwrap();
    match h.join() {
        Ok(s) => println!("OK {}", s),
        Err(_) => {
            println!("PANIC");
            std::process::exit(3);
        }
    }
}

fn summarize(r: &[NetflowPacket]) -> String {
    let mut s = format!("elements={}", r.len());
    for p in r {
        // every returned value must re-export and convert without panicking (C01)
        match p {
            NetflowPacket::V5(x) => {
                let _ = x.to_be_bytes();
            }
            NetflowPacket::V7(x) => {
                let _ = x.to_be_bytes();
            }
            NetflowPacket::V9(x) => {
                let _ = x.to_be_bytes();
            }
            NetflowPacket::IPFix(x) => {
                let _ = x.to_be_bytes();
            }
            NetflowPacket::Error(_) => {}
        }
        let _ = p.as_netflow_common();
        s.push_str(match p {
            NetflowPacket::V5(_) => " V5",
            NetflowPacket::V7(_) => " V7",
            NetflowPacket::V9(_) => " V9",
            NetflowPacket::IPFix(_) => " IPFIX",
            NetflowPacket::Error(_) => " ERR",
        });
        if s.len() > 200 {
            s.push_str(" ...");
            break;
        }
    }
    s
}

fn unhex(s: &str) -> Vec<u8> {
    (0..s.len() / 2).map(|i| u8::from_str_radix(&s[2 * i..2 * i + 2], 16).unwrap()).collect()
}

fn main() {
    let a: Vec<String> = std::env::args().collect();
    match a.get(1).map(|s| s.as_str()) {
        // n chained header-only IPFIX messages (16 bytes each): one parse_bytes level per packet
        Some("chain") => {
            let n: usize = a[2].parse().unwrap();
            let mut b = vec![];
            for _ in 0..n {
                b.extend(ipfix_hdr(16));
            }
            assert!(b.len() <= 65535);
            on_small_stack(move || summarize(&NetflowParser::default().parse_bytes(&b)));
        }
        // one IPFIX message: template (one 1-byte field) + data set with n records
        Some("records") => {
            let n: usize = a[2].parse().unwrap();
            let mut b = ipfix_hdr((16 + 12 + 4 + n) as u16);
            b.extend(be16(2));
            b.extend(be16(12));
            b.extend(be16(256));
            b.extend(be16(1));
            b.extend(be16(4));
            b.extend(be16(1));
            b.extend(be16(256));
            b.extend(be16((4 + n) as u16));
            b.extend(vec![7u8; n]);
            assert!(b.len() <= 65535);
            on_small_stack(move || summarize(&NetflowParser::default().parse_bytes(&b)));
        }
        // history of hex-encoded buffers fed to one parser
        Some("hex") => {
            let bufs: Vec<Vec<u8>> = a[2..].iter().map(|h| unhex(h)).collect();
            on_small_stack(move || {
                let mut p = NetflowParser::default();
                let mut out = String::new();
                for b in &bufs {
                    out.push_str(&summarize(&p.parse_bytes(b)));
                    out.push_str("; ");
                }
                out
            });
        }
        _ => {
            eprintln!("usage: nfreplay chain N | records N | hex HEX...");
            std::process::exit(2);
        }
    }
}
