// Copyright Kani Contributors
// SPDX-License-Identifier: Apache-2.0 OR MIT
#include <stddef.h>
#include <stdint.h>

// Declare functions instead of importing more headers in order to avoid conflicting definitions.
// See https://github.com/model-checking/kani/issues/1774 for more details.
void  free(void *ptr);
void *memcpy(void *dst, const void *src, size_t n);
void *calloc(size_t nmemb, size_t size);
void *malloc(size_t size);

// ---- /verif allocator accounting model (C15) ------------------------------------------
// Copy of Kani 0.68 library/kani/kani_lib.c in which every request to the Rust global
// allocator (__rust_alloc, __rust_alloc_zeroed, __rust_realloc) adds the number of bytes
// requested to VERIF_ALLOC_TOTAL, counts the call and records the largest single request.
// The three symbols are #[no_mangle] statics of the harness crate (kani/src/c15.rs), so a
// harness reads them like any Rust static and the native playback build (where a counting
// #[global_allocator] updates the same statics) observes the same quantities.
extern size_t VERIF_ALLOC_TOTAL;
extern size_t VERIF_ALLOC_CALLS;
extern size_t VERIF_ALLOC_MAX;
static void __verif_account(size_t size)
{
    VERIF_ALLOC_TOTAL += size;
    VERIF_ALLOC_CALLS += 1;
    if (size > VERIF_ALLOC_MAX) VERIF_ALLOC_MAX = size;
}

/// Mapping unit to `void` works for functions with no return type but not for
/// variables with type unit. We treat both uniformly by declaring an empty
/// struct type: `struct Unit {}` and a global variable `struct Unit VoidUnit`
/// returned by all void functions (both declared by the Kani compiler).
struct Unit;
extern struct Unit VoidUnit;

// `assert` then `assume`
#define __KANI_assert(cond, msg)            \
    do {                                    \
        __CPROVER_bool __KANI_temp = (cond);          \
        __CPROVER_assert(__KANI_temp, msg); \
        __CPROVER_assume(__KANI_temp);      \
    } while (0)

// Check that the input is either a power of 2, or 0. Algorithm from Hackers Delight.
__CPROVER_bool __KANI_is_nonzero_power_of_two(size_t i) { return (i != 0) && (i & (i - 1)) == 0; }

// This is a C implementation of the __rust_alloc function.
// https://stdrs.dev/nightly/x86_64-unknown-linux-gnu/alloc/alloc/fn.__rust_alloc.html
// It has the following Rust signature:
//   `unsafe fn __rust_alloc(size: usize, align: usize) -> *mut u8`
// This low-level function is called by std::alloc:alloc, and its
// implementation is provided by the compiler backend, so we need to provide an
// implementation for it to prevent verification failure due to missing function
// definition.
// For safety, refer to the documentation of GlobalAlloc::alloc:
// https://doc.rust-lang.org/std/alloc/trait.GlobalAlloc.html#tymethod.alloc
uint8_t *__rust_alloc(size_t size, size_t align)
{
    __KANI_assert(size > 0, "__rust_alloc must be called with a size greater than 0");
    // TODO: Ensure we are doing the right thing with align
    // https://github.com/model-checking/kani/issues/1168
    __KANI_assert(__KANI_is_nonzero_power_of_two(align), "Alignment is power of two");
    __verif_account(size);
    return malloc(size);
}

// This is a C implementation of the __rust_alloc_zeroed function.
// https://stdrs.dev/nightly/x86_64-unknown-linux-gnu/alloc/alloc/fn.__rust_alloc_zeroed.html
// It has the following Rust signature:
//   unsafe fn __rust_alloc_zeroed(size: usize, align: usize) -> *mut u8
// This low-level function is called by std::alloc:alloc_zeroed, and its
// implementation is provided by the compiler backend, so we need to provide an
// implementation for it to prevent verification failure due to missing function
// definition.
// For safety, refer to the documentation of GlobalAlloc::alloc_zeroed:
// hhttps://doc.rust-lang.org/std/alloc/fn.alloc_zeroed.html
uint8_t *__rust_alloc_zeroed(size_t size, size_t align)
{
    __KANI_assert(size > 0, "__rust_alloc_zeroed must be called with a size greater than 0");
    // TODO: Ensure we are doing the right thing with align
    // https://github.com/model-checking/kani/issues/1168
    __KANI_assert(__KANI_is_nonzero_power_of_two(align), "Alignment is power of two");
    __verif_account(size);
    return calloc(1, size);
}

// This is a C implementation of the __rust_dealloc function.
// https://stdrs.dev/nightly/x86_64-unknown-linux-gnu/alloc/alloc/fn.__rust_dealloc.html
// It has the following Rust signature:
//   `unsafe fn __rust_dealloc(ptr: *mut u8, size: usize, align: usize)`
// This low-level function is called by std::alloc:dealloc, and its
// implementation is provided by the compiler backend, so we need to provide an
// implementation for it to prevent verification failure due to missing function
// definition.
// For safety, refer to the documentation of GlobalAlloc::dealloc:
// https://doc.rust-lang.org/std/alloc/trait.GlobalAlloc.html#tymethod.dealloc
struct Unit __rust_dealloc(uint8_t *ptr, size_t size, size_t align)
{
    // TODO: Ensure we are doing the right thing with align
    // https://github.com/model-checking/kani/issues/1168
    __KANI_assert(__KANI_is_nonzero_power_of_two(align), "Alignment is power of two");

    __KANI_assert(__CPROVER_OBJECT_SIZE(ptr) == size,
                  "rust_dealloc must be called on an object whose allocated size matches its layout");
    free(ptr);
    return VoidUnit;
}

// This is a C implementation of the __rust_realloc function that has the following signature:
//     fn __rust_realloc(ptr: *mut u8, old_size: usize, align: usize, new_size: usize) -> *mut u8;
// This low-level function is called by std::alloc:realloc, and its
// implementation is provided by the compiler backend, so we need to provide an
// implementation for it to prevent verification failure due to missing function
// definition.
// For safety, refer to the documentation of GlobalAlloc::realloc:
// https://doc.rust-lang.org/std/alloc/trait.GlobalAlloc.html#method.realloc
uint8_t *__rust_realloc(uint8_t *ptr, size_t old_size, size_t align, size_t new_size)
{
    // Passing a NULL pointer is undefined behavior
    __KANI_assert(ptr != 0, "rust_realloc must be called with a non-null pointer");

    // Passing a new_size of 0 is undefined behavior
    __KANI_assert(new_size > 0, "rust_realloc must be called with a size greater than 0");

    // TODO: Ensure we are doing the right thing with align
    // https://github.com/model-checking/kani/issues/1168
    __KANI_assert(__KANI_is_nonzero_power_of_two(align), "Alignment is power of two");

    __verif_account(new_size);
    uint8_t *result = malloc(new_size);
    if (result) {
        size_t bytes_to_copy = new_size < old_size ? new_size : old_size;
        memcpy(result, ptr, bytes_to_copy);
        free(ptr);
    }

    return result;
}

// Function required by the linker, see https://github.com/rust-lang/rust/pull/141061
struct Unit __rust_no_alloc_shim_is_unstable_v2(void)
{
    return VoidUnit;
}
