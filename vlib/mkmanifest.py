#!/usr/bin/env python3
"""Regenerate /verif/MANIFEST.json from the harness registry (run from /verif)."""
import json, os, sys
HERE = os.path.dirname(os.path.dirname(os.path.abspath(__file__)))
sys.path.insert(0, HERE)
from vlib import registry

LEVEL = {
 "C01": ("bounded model checking of the decided layers (kernels incl. value serializers, V5/V7 parse / export / common view, V9 and IPFIX set, packet and parse_bytes layers, small V9 data flowsets): CBMC decides absence of panics, index/arithmetic failures, unwinding-bound overruns and (no recursive cycle being reachable) stack growth, for all inputs inside the per-harness bounds and arbitrary small cache states; JSON clause not covered",
         "layered: kernels for every declared length; V9/IPFIX set, record, packet layers with the layer below replaced by models exact on the harness domain; recursion-free call graph checked by CBMC's recursion unwinding assertions in the code those harnesses reach; NOT reached by a registered harness: the IPFIX data-record loop, the packet-level serializers and the V9/IPFIX common view (tier deep, DESIGN.md section 8)"),
 "C02": ("bounded model checking: parse_bytes equals a reference left-to-right decomposition on chains of header-only packets of every version mix in the shape catalogue (symbolic allowed set, symbolic contents, truncations, stray bytes, unknown versions); V5/V7/V9/IPFIX consumed length equals the header-implied wire length",
         "packet chains are shapes with written version/count bytes; per-version consumed length decided in the fixed/P layers"),
 "C03": ("bounded model checking of V5::parse / V7::parse / ProtocolTypes::from on the compiled code: every header/record field at its Cisco offset for all values and counts <= 2, every cut point for <= 1 record, all 256 protocol numbers",
         "Cisco offsets and the IANA table are transcribed by hand into the harness; counts > 2 run the same loop body and are outside the claim"),
 "C04": ("bounded model checking, layer by layer: kernels for all field data types x every declared length x all values; template / options-template flowsets as sent, from a symbolic cached entry of one or two fields (shape catalogue); data flowsets: one field x 3 records with padding, zero-size templates; packet loop with the set layer modelled; the V9Parser::parse entry point with the real decoders on packets without decodable data",
         "composition of layers is by hand (each premise solver-checked); sizes <= 3 records/fields/flowsets; multi-field data records and end-to-end template-then-data histories through the real data decoder did not reach a verdict (tier deep, DESIGN.md section 8)"),
 "C05": ("bounded model checking, layer by layer: kernels; IPFIX template / options-template sets incl. enterprise specifiers, from a symbolic cached entry; message loop with length window (set layer modelled); the IPFixParser::parse entry point with the real decoders on messages without decodable data",
         "the IPFIX data-record loop (record splitting, variable-length prefixes) is NOT decided: ipfix::Data::parse exhausts 30 GB in CBMC even for 2 records x 1 field (tier deep, DESIGN.md section 8); known findings (multi-record template sets, sets after an undecodable set) are witnessed and excluded from the remainder harnesses"),
 "C06": ("bounded model checking from an arbitrary small cache state (one symbolic template of one or two fields and/or one options template): template flowsets/sets overwrite exactly the contained complete records (last wins, other ids untouched, same-shape redefinitions included), data/unknown/truncated sets and V5/V7/unknown/disallowed packets leave caches unchanged; allow-list narrowed between calls",
         "cache pre-state: one symbolic entry per cache; cross-packet histories through the real data decoders (same buffer vs split calls, second parser) did not reach a verdict (tier deep); what is decided across packets is the parse_bytes chaining on header-only packets (W) and per-packet cache updates (S, P)"),
 "C07": ("bounded model checking: an id known to neither cache never reaches a data decoder (decoder models assert it), V9 packet => Err (also when the defining template follows in the same packet), IPFIX set omitted, caches unchanged (real decoder on a message holding such a set)",
         "same bounds as C06"),
 "C08": ("bounded model checking: to_be_bytes(parse(b)) == b[..consumed] (byte index symbolic) and parse(to_be_bytes(s)) == s for V5 and V7 with 0, 1, 2 records, all field values symbolic",
         "record count written per harness (0,1,2)"),
 "C09": ("bounded model checking: per-kernel same-width re-export for every data type (lossy kernels are witnessed as known findings); S layer: the decoded template / options-template structures - padding and counts included - equal what was sent whatever the cache held, i.e. the structure handed to V9::to_be_bytes is right",
         "V9::to_be_bytes itself at packet level (decode + re-export in one run, or the serializer on a two-flowset structure) did not reach a verdict in CBMC (tier deep, DESIGN.md section 8): the re-export identity is decided per value and per decoded structure, not end to end"),
 "C10": ("bounded model checking: kernels as C09; S layer: the decoded IPFIX template / options-template structures (own padding, own field_count, enterprise numbers) equal what was sent whatever the cache held",
         "as C09: IPFix::to_be_bytes at packet level is tier deep; the enterprise-bit and variable-length-prefix losses were confirmed natively and are listed in known_findings.json, their witness harnesses are tier deep"),
 "C11": ("bounded model checking: parse_bytes on chains of header-only packets equals the per-packet reference decomposition (so concatenation == per-call results, caches untouched); per-version entry points hand back exactly the unconsumed suffix (real decoders); packet loops are self-delimiting (P layer)",
         "chains of <= 3 header-only packets; template-then-data histories chained vs split through the real data decoders did not reach a verdict (tier deep)"),
 "C12": ("bounded model checking: for 3 (one harness family: 4) symbolic allowed version numbers and every chain shape, the result is the reference decomposition cut at the first disallowed version, caches untouched; allowed-but-unknown version => UnknownVersion error with the unparsed bytes",
         "allowed set has <= 3 members (symbolic u16) in the chain shapes, 4 in w_allowed_four_*; the list may be narrowed between calls"),
 "C13": ("bounded model checking: V5/V7 common view for 0..2 records (version, timestamp, per-record projection in order); address kernels",
         "the V9 and IPFIX conversions (NetflowCommon::from(&V9/&IPFix)) and the flowsets concatenation helper did not reach a verdict in CBMC (> 600 s of symex on heap structures; tier deep, DESIGN.md section 8) - C13 is decided for V5/V7 only; the known deviations (V9 protocol/times None, IPFIX flow per field) were confirmed natively"),
 "C14": ("bounded model checking: every cut point of V5/V7 packets is an error; V9 flowset / IPFIX message whose declared length exceeds the buffer is an error before anything is cached; W-level: the error is last and carries the truncated packet from its version field",
         "V5/V7 <= 1 record for the all-cut-points harness; V9/IPFIX truncation per id class"),
 "C15": ("bounded model checking with an accounting model of the Rust global allocator (bytes requested, number of requests, largest request): for short buffers whose count / length fields announce far more than is present (V5/V7 count and field-kernel declared length: every 16-bit value; V9/IPFIX field counts, scope/option lengths, flowset and message lengths: extreme values), the largest single heap request is <= 64 KiB, the total requested is <= 64 KiB + 8 x bytes present + 512, and every loop exits within its unwinding bound. ONLY the clause 'no count or length field causes allocation or work for bytes that are not present' is decided",
         "not decided: quadratic growth with the number of packets/sets/records and the multiplicative inflation by zero-length fields (both need sizes far beyond the bounds CBMC reaches), V9 header.count (run did not finish); deallocation is not credited"),
 "C17": ("the harness crate is rebuilt with default-features = false (compile clause decided by rustc); kernels other than Unknown are checked against the same reference as the default build, the Unknown kernel never decodes, and V9 data under a template with an unknown field yields no decoded data",
         "identity with the default build is by passing the same reference model in both configurations, within the kernel/layer bounds; the IPFIX data path with the feature off is tier deep"),
}

NA = [
 {"property_id": "C16", "reason": "the deciding code is serde_json/itoa/ryu text generation plus a JSON reader for the oracle (number/float formatting is the worst case for bit-blasting) and cross-instance determinism depends on RandomState seeds that the container model abstracts away; not reachable with this technique"},
]

def main():
    props = [json.loads(l)["id"] for l in open(os.path.join(HERE, "properties.jsonl"))]
    na_ids = {n["property_id"] for n in NA}
    hooks = json.load(open(os.path.join(HERE, "hooks.json")))
    checks = []
    for pid in props:
        if pid in na_ids:
            continue
        assert registry.harnesses_for(pid, "quick"), pid
        text, note = LEVEL[pid]
        checks.append({
            "property_id": pid,
            "quick_cmd": "./check %s --tier quick" % pid,
            "thorough_cmd": "./check %s --tier thorough" % pid,
            "evidence_file": "/verif/evidence/%s.json" % pid,
            "replay_cmd_template": "./check %s --replay {path}" % pid,
            "engine": "kani-cbmc",
            "level_claimed": {"category": "model_checking", "text": text, "design_ref": "DESIGN.md section 5, " + pid},
            "level_note": note + "; bounds, stubs and assumptions of every harness are written into the evidence file",
            "technique": "bounded model checking of the compiled Rust code (Kani 0.68 -> goto -> CBMC 6.11, SAT), counterexamples replayed natively",
        })
    m = {
        "version": 1,
        "setup_cmd": "./check --setup",
        "hooks": hooks,
        "engines": [{"name": "kani-cbmc", "path": "/verif/check",
                     "serves_properties": [c["property_id"] for c in checks],
                     "kind_free_text": "kani-compiler builds /repo + /verif/kani (path dependency) to goto; kani-driver's goto-instrument pipeline is replayed by /verif/vlib/runner.py; CBMC 6.11 + cadical decides each harness; failing harnesses are re-run through `cargo kani --concrete-playback` and executed natively"}],
        "checks": checks,
        "notes": "exit 0 = held on everything explored, 1 = VIOLATION (replayed natively), 2 = inconclusive (never a pass). Known findings: /verif/known_findings.json.",
        "not_applicable": NA,
    }
    json.dump(m, open(os.path.join(HERE, "MANIFEST.json"), "w"), indent=1)
    print("wrote MANIFEST.json with", len(checks), "checks")

if __name__ == "__main__":
    main()
