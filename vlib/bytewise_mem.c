// Byte-wise models of memcpy/memmove for CBMC, linked in place of CBMC's built-in
// array_copy/array_replace models.  With a constant size the loop unrolls into per-byte
// assignments that symex's field sensitivity can follow, so constants written into a
// buffer survive `to_vec()` / `extend_from_slice()`.  The loop bound is set by the driver
// (--unwindset memcpy.0:K); a copy longer than K fails the unwinding assertion and the
// harness is reported inconclusive.
#include <stddef.h>

void *memcpy(void *dst, const void *src, size_t n)
{
    unsigned char *d = (unsigned char *)dst;
    const unsigned char *s = (const unsigned char *)src;
    for (size_t i = 0; i < n; i++)
        d[i] = s[i];
    return dst;
}

void *memmove(void *dst, const void *src, size_t n)
{
    unsigned char *d = (unsigned char *)dst;
    const unsigned char *s = (const unsigned char *)src;
    if (d <= s) {
        for (size_t i = 0; i < n; i++)
            d[i] = s[i];
    } else {
        for (size_t i = n; i > 0; i--)
            d[i - 1] = s[i - 1];
    }
    return dst;
}
