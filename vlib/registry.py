"""Which harnesses decide which property, at which bounds."""
from .runner import Harness as H

GLOBAL_ASSUMPTIONS = [
    "bounded: every claim holds only within the per-harness bounds listed under coverage.samples[].bounds; larger sizes are outside the claim",
    "core::fmt::write is stubbed to Ok(()) (error message text is outside every claim)",
    "std BTreeMap/HashMap/HashSet are replaced by the sorted-Vec model src/verif_shim.rs under cfg(kani)",
    "allocation never fails (Kani default)",
    "rustc, Kani 0.68, CBMC 6.11 and cadical are trusted",
]

CLAUSES = {}

# loop-bound rules shared by harness groups: (regex on loop function description, bound)
def L(*pairs):
    return list(pairs)


_ALL = []


def reg(props, h):
    h.props = props if isinstance(props, (list, tuple)) else [props]
    _ALL.append(h)
    return h


# ---------------------------------------------------------------- fixed formats
reg(["C03", "C01"], H("fixed::v5_layout", unwind=4, timeout=900, mem_gb=16,
    desc="V5::parse on a complete packet: every header/record field equals the big-endian value at its Cisco offset; remainder starts at 24+48*count",
    bounds={"bytes": 121, "count": "<=2 (symbolic)", "trailing_bytes": 3}))
reg(["C03"], H("fixed::proto_table", unwind=2, timeout=300, mem_gb=2,
    desc="ProtocolTypes::from(n) is the IANA name of n, for all n outside the known finding {0,1,144}",
    bounds={"n": "all 256 values minus {0,1,144}"}))
reg(["C03"], H("fixed::proto_table_kf", unwind=2, timeout=300, mem_gb=2, expect="fail", finding="C03-proto-0-1-144",
    desc="known-finding witness: ProtocolTypes::from(n) for n in {0,1,144}",
    bounds={"n": "{0,1,144}"}))


def all_harnesses():
    return list(_ALL)


def harnesses_for(pid, tier, seed=0):
    out = []
    for h in _ALL:
        if pid in h.props and (tier == "thorough" or h.tier == "quick"):
            out.append(h)
    return out
