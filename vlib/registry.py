"""Which harnesses decide which property, at which bounds."""
from .runner import Harness as H

GLOBAL_ASSUMPTIONS = [
    "bounded: every claim holds only within the per-harness bounds listed under coverage.samples[].bounds; larger sizes are outside the claim",
    "core::fmt::write is stubbed to Ok(()) (error message text is outside every claim)",
    "std BTreeMap/HashMap/HashSet are replaced by the sorted-Vec model src/verif_shim.rs under cfg(kani)",
    "allocation never fails (Kani default)",
    "rustc, Kani 0.68, CBMC 6.11 and cadical are trusted",
]

CLAUSES = {}

# loop-bound rules shared by harness groups: (regex on loop function description, bound)
def L(*pairs):
    return list(pairs)


_ALL = []


def reg(props, h):
    h.props = props if isinstance(props, (list, tuple)) else [props]
    _ALL.append(h)
    return h


# ---------------------------------------------------------------- fixed formats
reg(["C03", "C01"], H("fixed::v5_layout", unwind=4, timeout=900, mem_gb=16,
    desc="V5::parse on a complete packet: every header/record field equals the big-endian value at its Cisco offset; remainder starts at 24+48*count",
    bounds={"bytes": 121, "count": "<=2 (symbolic)", "trailing_bytes": 3}))
reg(["C03"], H("fixed::proto_table", unwind=2, timeout=300, mem_gb=2,
    desc="ProtocolTypes::from(n) is the IANA name of n, for all n outside the known finding {0,1,144}",
    bounds={"n": "all 256 values minus {0,1,144}"}))
reg(["C03"], H("fixed::proto_table_kf", unwind=2, timeout=300, mem_gb=2, expect="fail", finding="C03-proto-0-1-144",
    desc="known-finding witness: ProtocolTypes::from(n) for n in {0,1,144}",
    bounds={"n": "{0,1,144}"}))

reg(["C03", "C01"], H("fixed::v7_layout", unwind=4, timeout=900, mem_gb=8,
    desc="V7::parse on a complete packet: every header/record field at its Cisco offset; remainder at 24+52*count",
    bounds={"bytes": 129, "count": "<=2 (symbolic)", "trailing_bytes": 3}))
reg(["C03"], H("fixed::v5_v7_proto_name", unwind=3, timeout=600, mem_gb=6,
    desc="record.protocol_type == ProtocolTypes::from(record.protocol_number) for V5 and V7",
    bounds={"count": 1}))
reg(["C03", "C14", "C01"], H("fixed::v5_trunc", unwind=4, timeout=1500, mem_gb=20, tier="thorough",
    desc="V5::parse at every cut point: Ok iff 24+48*count bytes are present, never fewer records",
    bounds={"bytes": "0..=74 (symbolic length)", "count": "any u16 (2 or more records never fit => Err)"}))
reg(["C03", "C14", "C01"], H("fixed::v7_trunc", unwind=4, timeout=1500, mem_gb=20, tier="thorough",
    desc="V7::parse at every cut point",
    bounds={"bytes": "0..=78 (symbolic length)", "count": "any u16"}))
for _v, _rec in (("v5", 48), ("v7", 52)):
    for _c in (0, 1, 2):
        reg(["C08", "C01"], H("fixed::%s_reexport_%d" % (_v, _c), unwind=4, timeout=1200, mem_gb=12,
            tier="quick" if _c == 1 else "thorough",
            desc="%s: to_be_bytes(parse(b)) == version || b[..22+%d*count] with count written = %d, byte index symbolic" % (_v.upper(), _rec, _c),
            bounds={"count": _c, "other_bytes": "all symbolic"}))
for _v in ("v5", "v7"):
    for _c in (0, 1, 2):
        reg(["C08"], H("fixed::%s_struct_roundtrip_%d" % (_v, _c), unwind=4, timeout=1200, mem_gb=12,
            tier="quick" if _c == 1 else "thorough",
            desc="%s: parse(to_be_bytes(s)) == s for arbitrary structures with count == records == %d" % (_v.upper(), _c),
            bounds={"records": _c, "field_values": "all symbolic"},
            assumptions=["structure has the right version constant and protocol_type == ProtocolTypes::from(protocol_number)"]))
        reg(["C13", "C01"], H("fixed::%s_common_%d" % (_v, _c), unwind=4, timeout=900, mem_gb=8,
            tier="quick" if _c == 2 else "thorough",
            desc="%s common view with %d records: version, timestamp, per-record projection in order, MACs None" % (_v.upper(), _c),
            bounds={"records": _c}))
reg(["C13"], H("fixed::error_common", unwind=3, timeout=300, mem_gb=2,
    desc="Error packet converts to Err", bounds={}))


# ---------------------------------------------------------------- K: field kernels
_KB = {"declared_length": "all 65536 values", "available_bytes": "0..=MAXB (symbolic)", "byte_values": "all"}
def kreg(name, props, maxb, unwind, desc, tier="quick", timeout=900, mem=6, **kw):
    return reg(props, H("k::" + name, unwind=unwind, timeout=timeout, mem_gb=mem, tier=tier, desc=desc,
                        bounds=dict(_KB, MAXB=maxb), **kw))

kreg("k_unsigned", ["C04", "C05", "C09", "C10", "C01"], 17, 18, "unsigned kernel: decode iff width in {1,2,3,4,8,16} and bytes available; value = big-endian reading; same-width re-export")
kreg("k_signed", ["C04", "C05", "C01"], 17, 18, "signed kernel: widths 1,2,3,4 value-exact (sign extension); 3,4 re-export exact", tier="thorough")
kreg("k_signed_wide_kf", ["C04", "C05"], 16, 18, "finding witness: 8/16-byte signed truncated to i32", expect="fail", finding="C04-signed-8-16-truncated", tier="thorough")
kreg("k_signed_reexport_kf", ["C09", "C10"], 16, 18, "finding witness: 1/2/8/16-byte signed re-exported as 4 bytes", expect="fail", finding="C09-signed-width", tier="thorough")
kreg("k_dur_secs", ["C04", "C05", "C01"], 17, 18, "duration(seconds) kernel, value-exact for widths <= 8; to_be_bytes never panics", tier="thorough")
kreg("k_dur_millis", ["C04", "C05", "C01"], 17, 18, "duration(milliseconds) kernel (V9 FIRST/LAST_SWITCHED), value-exact for widths <= 8")
kreg("k_dur_millis_w8", ["C04", "C05"], 17, 18, "duration(milliseconds) kernel, value-exact for widths <= 8 (64-bit division by constant: slow)", tier="thorough", timeout=2400)
kreg("k_dur_micros", ["C05", "C01"], 17, 18, "duration(microseconds) kernel", tier="thorough")
kreg("k_dur_nanos", ["C05", "C01"], 17, 18, "duration(nanoseconds) kernel", tier="thorough")
kreg("k_dur_millis_reexport_kf", ["C09", "C10"], 4, 6, "finding witness: millisecond durations re-exported as seconds", expect="fail", finding="C09-duration-reexport")
kreg("k_dur_secs_reexport_kf", ["C09", "C10"], 8, 10, "finding witness: second durations of width != 4 re-exported as 4 bytes / Err", expect="fail", finding="C09-duration-reexport", tier="thorough")
kreg("k_dur_secs4_reexport", ["C09", "C10"], 4, 6, "4-byte second durations re-export exactly (remainder of C09-duration-reexport)", tier="thorough")
kreg("k_ip4", ["C04", "C05", "C09", "C10", "C13", "C01"], 6, 7, "IPv4 kernel: 4 bytes, value and re-export exact")
kreg("k_ip6", ["C04", "C05", "C09", "C10", "C13", "C01"], 17, 18, "IPv6 kernel: 16 bytes, value and re-export exact", tier="thorough")
kreg("k_f64", ["C05", "C10", "C01"], 9, 10, "float64 kernel: bit-exact incl. NaN payloads; re-export exact", tier="thorough")
kreg("k_proto", ["C04", "C05", "C09", "C10", "C01"], 3, 4, "protocol kernel for assigned numbers and 255: one byte, IANA name, re-export exact")
kreg("k_proto_unassigned_kf", ["C04", "C05"], 2, 4, "finding witness: protocol field with unassigned number 145..254 fails to decode", expect="fail", finding="C04-proto-field-unassigned")
kreg("k_mac", ["C04", "C05", "C01"], 7, 8, "MAC kernel: 6 bytes consumed", tier="thorough")
kreg("k_mac_reexport_kf", ["C09", "C10"], 6, 8, "finding witness: MAC re-exported as 17 text bytes", expect="fail", finding="C09-mac-reexport", tier="thorough")
kreg("k_vec", ["C04", "C05", "C09", "C10", "C01"], 5, 7, "byte-vector kernel: every declared length, value = bytes, re-export exact")
kreg("k_unknown", ["C04", "C05", "C17", "C01"], 5, 7, "unknown-type kernel with parse_unknown_fields on: same as byte vector", tier="thorough")
kreg("k_string", ["C04", "C05", "C09", "C10", "C01"], 3, 8, "string kernel on ASCII input: text = bytes, re-export exact", tier="thorough", timeout=1500, mem=12)
kreg("k_string_nonutf8_kf", ["C09", "C10"], 1, 8, "finding witness: non-UTF-8 string byte replaced by U+FFFD on re-export", expect="fail", finding="C09-string-lossy", tier="thorough", timeout=1500, mem=12)


# ---------------------------------------------------------------- S/T: V9 flowset
_D9 = "v9::Data::parse / v9::OptionsData::parse replaced by models that are exact on the harness domain (every cached field length >= 8, body <= 7 bytes => no record fits, body is padding)"
reg(["C04", "C06", "C01"], H("s9::s_v9_template", unwind=5, timeout=1200, mem_gb=10,
    desc="v9::FlowSet::parse, template flowset vs a symbolic one-entry cache: records as sent, padding, consumption, cache post-state (last wins, others untouched)",
    bounds={"body_bytes": "<=12 (symbolic length)", "template_records": "<=3", "fields_per_record": "<=2", "cached_templates": 1}))
reg(["C04", "C06", "C01"], H("s9::s_v9_options_template", unwind=5, timeout=1200, mem_gb=10,
    desc="v9::FlowSet::parse, options-template flowset: first record as sent (scope/option fields), cached",
    bounds={"body_bytes": "<=14 (symbolic length)", "fields": "<=2"}))
reg(["C04", "C06", "C07", "C01"], H("s9::s_v9_data_dispatch", unwind=9, timeout=1200, mem_gb=10,
    desc="v9::FlowSet::parse, data id 300 vs symbolic template/options-template ids: dispatch order, consumption, unknown id => Err, caches unchanged",
    bounds={"body_bytes": "<=7", "cached": "1 template + 1 options template, symbolic ids"}, assumptions=[_D9]))
for sfx, what in (("t", "template id 0"), ("o", "options-template id 1"), ("d", "data id 300")):
    reg(["C14", "C06"], H("s9::s_v9_truncated_" + sfx, unwind=5, timeout=900, mem_gb=8,
        desc="v9::FlowSet::parse with declared length > available bytes (%s): Err, caches unchanged" % what,
        bounds={"available": 10, "declared_length": "11..=65535"}, assumptions=[_D9]))


# ---------------------------------------------------------------- D: V9 data records
_K9 = "FieldValue::from_field_type replaced by a model exact for UnsignedDataNumber lengths 0..=7 (exactness decided by k::k_unsigned)"
reg(["C04", "C01"], H("d9::d_v9_two_fields", unwind=4, timeout=2400, mem_gb=30, tier="thorough",
    desc="v9::Data::parse, 2 unsigned fields with symbolic declared lengths 0..=5: record count floor(7/size), values at offsets, keys/types/order, padding bytes, illegal width => no records",
    bounds={"body_bytes": 7, "fields": 2, "declared_lengths": "0..=5 each, sum >= 3", "records": "<=2"}, assumptions=[_K9]))
reg(["C04", "C01"], H("d9::d_v9_three_records", unwind=5, timeout=2400, mem_gb=30,
    desc="v9::Data::parse, one 2-byte field, 7-byte body: 3 records + 1 padding byte, values in order",
    bounds={"body_bytes": 7, "fields": 1, "records": 3}, assumptions=[_K9]))
reg(["C01"], H("d9::d_v9_zero_size_template", unwind=4, timeout=1200, mem_gb=10,
    desc="v9::Data::parse under a cached template of total length 0 (no fields, or one zero-length field): no panic, no records",
    bounds={"body_bytes": 3, "fields": "0..=1"}, assumptions=[_K9]))


def all_harnesses():
    return list(_ALL)


def harnesses_for(pid, tier, seed=0):
    out = []
    for h in _ALL:
        if pid in h.props and (tier == "thorough" or h.tier == "quick"):
            out.append(h)
    return out
