"""Which harnesses decide which property, at which bounds."""
from .runner import Harness as H

GLOBAL_ASSUMPTIONS = [
    "bounded: every claim holds only within the per-harness bounds listed under coverage.samples[].bounds; larger sizes are outside the claim",
    "core::fmt::write is stubbed to Ok(()) (error message text is outside every claim)",
    "std BTreeMap/HashMap/HashSet are replaced by the sorted-Vec model src/verif_shim.rs under cfg(kani)",
    "allocation never fails (Kani default)",
    "rustc, Kani 0.68, CBMC 6.11 and cadical are trusted",
]

CLAUSES = {}

# loop-bound rules shared by harness groups: (regex on loop function description, bound)
def L(*pairs):
    return list(pairs)


_ALL = []


def reg(props, h):
    h.props = props if isinstance(props, (list, tuple)) else [props]
    _ALL.append(h)
    return h


# ---------------------------------------------------------------- fixed formats
reg(["C03", "C01"], H("fixed::v5_layout", unwind=4, timeout=900, mem_gb=16,
    desc="V5::parse on a complete packet: every header/record field equals the big-endian value at its Cisco offset; remainder starts at 24+48*count",
    bounds={"bytes": 121, "count": "<=2 (symbolic)", "trailing_bytes": 3}))
reg(["C03"], H("fixed::proto_table", unwind=2, timeout=300, mem_gb=2,
    desc="ProtocolTypes::from(n) is the IANA name of n, for all n outside the known finding {0,1,144}",
    bounds={"n": "all 256 values minus {0,1,144}"}))
reg(["C03"], H("fixed::proto_table_kf", unwind=2, timeout=300, mem_gb=2, expect="fail", finding="C03-proto-0-1-144",
    desc="known-finding witness: ProtocolTypes::from(n) for n in {0,1,144}",
    bounds={"n": "{0,1,144}"}))

reg(["C03", "C01"], H("fixed::v7_layout", unwind=4, timeout=900, mem_gb=8,
    desc="V7::parse on a complete packet: every header/record field at its Cisco offset; remainder at 24+52*count",
    bounds={"bytes": 129, "count": "<=2 (symbolic)", "trailing_bytes": 3}))
reg(["C03"], H("fixed::v5_v7_proto_name", unwind=3, timeout=600, mem_gb=6,
    desc="record.protocol_type == ProtocolTypes::from(record.protocol_number) for V5 and V7",
    bounds={"count": 1}))
reg(["C03", "C14", "C01"], H("fixed::v5_trunc", unwind=4, timeout=1500, mem_gb=20, tier="thorough",
    desc="V5::parse at every cut point: Ok iff 24+48*count bytes are present, never fewer records",
    bounds={"bytes": "0..=74 (symbolic length)", "count": "any u16 (2 or more records never fit => Err)"}))
reg(["C03", "C14", "C01"], H("fixed::v7_trunc", unwind=4, timeout=1500, mem_gb=20, tier="thorough",
    desc="V7::parse at every cut point",
    bounds={"bytes": "0..=78 (symbolic length)", "count": "any u16"}))
for _v, _rec in (("v5", 48), ("v7", 52)):
    for _c in (0, 1, 2):
        reg(["C08", "C01"], H("fixed::%s_reexport_%d" % (_v, _c), unwind=4, timeout=1200, mem_gb=12,
            tier="quick" if _c == 1 else "thorough",
            desc="%s: to_be_bytes(parse(b)) == version || b[..22+%d*count] with count written = %d, byte index symbolic" % (_v.upper(), _rec, _c),
            bounds={"count": _c, "other_bytes": "all symbolic"}))
for _v in ("v5", "v7"):
    for _c in (0, 1, 2):
        reg(["C08"], H("fixed::%s_struct_roundtrip_%d" % (_v, _c), unwind=4, timeout=1200, mem_gb=12,
            tier="quick" if _c == 1 else "thorough",
            desc="%s: parse(to_be_bytes(s)) == s for arbitrary structures with count == records == %d" % (_v.upper(), _c),
            bounds={"records": _c, "field_values": "all symbolic"},
            assumptions=["structure has the right version constant and protocol_type == ProtocolTypes::from(protocol_number)"]))
        reg(["C13", "C01"], H("fixed::%s_common_%d" % (_v, _c), unwind=4, timeout=900, mem_gb=8,
            tier="quick" if _c == 2 else "thorough",
            desc="%s common view with %d records: version, timestamp, per-record projection in order, MACs None" % (_v.upper(), _c),
            bounds={"records": _c}))
reg(["C13"], H("fixed::error_common", unwind=3, timeout=3000, mem_gb=24, tier="thorough",
    desc="Error packet converts to Err", bounds={}))

for _nm, _c, _tier in (("v5_count_30", 30, "thorough"), ("v5_count_31", 31, "thorough"), ("v5_count_300", 300, "thorough"), ("v7_count_31", 31, "thorough"), ("v7_count_257", 257, "thorough")):
    reg(["C03", "C02", "C01"], H("fixed::" + _nm, unwind=_c + 2, loops=[(r"nfv5fixed", 52 * _c + 40)], timeout=5400, mem_gb=20, fs=32768, tier=_tier,
        desc="%s::parse with header.count written = %d over exactly %d patterned records + 5 trailing bytes: decoded records == count, packet ends at 24+rec*count" % (_nm[:2].upper(), _c, _c),
        bounds={"count": _c, "record_bytes": "fixed pattern (concrete), last trailing byte symbolic"}))

reg(["C08", "C01"], H("fixed::v5_export_31", unwind=34, timeout=1500, mem_gb=20, fs=32768,
    desc="V5::to_be_bytes of a structure with 31 records (count == 31): 24 + 48*31 bytes, count as given, last record at its offset (beyond the documented 30-record maximum nothing is dropped)",
    bounds={"records": 31, "record_values": "fixed pattern (concrete)", "header": "symbolic"}))


# ---------------------------------------------------------------- K: field kernels
_KB = {"declared_length": "all 65536 values", "available_bytes": "0..=MAXB (symbolic)", "byte_values": "all"}
def kreg(name, props, maxb, unwind, desc, tier="quick", timeout=900, mem=6, **kw):
    return reg(props, H("k::" + name, unwind=unwind, timeout=timeout, mem_gb=mem, tier=tier, desc=desc,
                        bounds=dict(_KB, MAXB=maxb), **kw))

kreg("k_unsigned", ["C04", "C05", "C09", "C10", "C01"], 17, 18, "unsigned kernel: widths 1,2,3,4,8,16 decode whenever the bytes are available, into the variant of that width, and re-export at the same width; whatever decodes (any width) consumes exactly the declared bytes and carries their big-endian value")
kreg("k_signed", ["C04", "C05", "C01"], 17, 18, "signed kernel: widths 1,2,3,4 value-exact (sign extension); 3,4 re-export exact; every declared length incl. 0: no panic")
kreg("k_signed_wide_kf", ["C04", "C05"], 16, 18, "finding witness: 8/16-byte signed truncated to i32", expect="fail", finding="C04-signed-8-16-truncated", tier="thorough")
kreg("k_signed_reexport_kf", ["C09", "C10"], 16, 18, "finding witness: 1/2/8/16-byte signed re-exported as 4 bytes", expect="fail", finding="C09-signed-width", tier="thorough")
kreg("k_dur_secs", ["C04", "C05", "C01"], 17, 18, "duration(seconds) kernel, value-exact for widths <= 8; to_be_bytes never panics", tier="thorough")
kreg("k_dur_millis", ["C04", "C05", "C01"], 17, 18, "duration(milliseconds) kernel (V9 FIRST/LAST_SWITCHED), value-exact for widths <= 8")
kreg("k_dur_millis_w8", ["C04", "C05"], 17, 18, "duration(milliseconds) kernel, value-exact for widths <= 8 (64-bit division by constant: slow)", tier="thorough", timeout=4800)
kreg("k_dur_micros", ["C05", "C01"], 17, 18, "duration(microseconds) kernel", tier="thorough")
kreg("k_dur_nanos", ["C05", "C01"], 17, 18, "duration(nanoseconds) kernel", tier="thorough")
kreg("k_dur_millis_reexport_kf", ["C09", "C10"], 4, 6, "finding witness: millisecond durations re-exported as seconds", expect="fail", finding="C09-duration-reexport")
kreg("k_dur_secs_reexport_kf", ["C09", "C10"], 8, 10, "finding witness: second durations of width != 4 re-exported as 4 bytes / Err", expect="fail", finding="C09-duration-reexport", tier="thorough")
kreg("k_dur_secs4_reexport", ["C09", "C10"], 4, 6, "4-byte second durations re-export exactly (remainder of C09-duration-reexport)", tier="thorough")
kreg("k_ip4", ["C04", "C05", "C09", "C10", "C13", "C01"], 6, 7, "IPv4 kernel: 4 bytes, value and re-export exact")
kreg("k_ip6", ["C04", "C05", "C09", "C10", "C13", "C01"], 17, 18, "IPv6 kernel: 16 bytes, value and re-export exact", tier="thorough")
kreg("k_f64", ["C05", "C10", "C01"], 9, 10, "float64 kernel: bit-exact incl. NaN payloads; re-export exact", tier="thorough")
kreg("k_proto", ["C04", "C05", "C09", "C10", "C01"], 3, 4, "protocol kernel for assigned numbers and 255: one byte, IANA name, re-export exact")
kreg("k_proto_unassigned_kf", ["C04", "C05"], 2, 4, "finding witness: protocol field with unassigned number 145..254 fails to decode", expect="fail", finding="C04-proto-field-unassigned")
kreg("k_mac", ["C04", "C05", "C01"], 7, 8, "MAC kernel: 6 bytes consumed", tier="thorough")
kreg("k_mac_reexport_kf", ["C09", "C10"], 6, 8, "finding witness: MAC re-exported as 17 text bytes", expect="fail", finding="C09-mac-reexport", tier="thorough")
kreg("k_vec", ["C04", "C05", "C09", "C10", "C01"], 5, 7, "byte-vector kernel: every declared length, value = bytes, re-export exact")
kreg("k_unknown", ["C04", "C05", "C17", "C01"], 5, 7, "unknown-type kernel with parse_unknown_fields on: same as byte vector", tier="thorough")
kreg("k_string", ["C04", "C05", "C09", "C10", "C01"], 3, 8, "string kernel on ASCII input: text = bytes, re-export exact", tier="thorough", timeout=1500, mem=12)
kreg("k_string_nonutf8_kf", ["C09", "C10"], 1, 8, "finding witness: non-UTF-8 string byte replaced by U+FFFD on re-export", expect="fail", finding="C09-string-lossy", tier="thorough", timeout=1500, mem=12)


# ---------------------------------------------------------------- S/T: V9 flowset
_D9 = "v9::Data::parse / v9::OptionsData::parse replaced by models that are exact on the harness domain (every cached field length >= 8, body <= 7 bytes => no record fits, body is padding)"
for _nm, _shape, _tier in (("2f", "1 record x 2 fields", "quick"), ("1f_pad3", "1 record x 1 field + 3 padding bytes", "thorough"),
                          ("1f_1f", "2 records x 1 field + 2 padding bytes (ids may coincide: last wins)", "quick"),
                          ("1f_0f_1f", "3 records with 1,0,1 fields", "thorough"),
                          ("1f_trunc", "1 complete record + a record header announcing 9 fields with 2 bytes left", "quick"),
                          ("only_trunc", "no complete record: header announcing 9 fields + 1 byte", "thorough")):
    reg(["C04", "C06", "C01"], H("s9::s_v9_template_" + _nm, unwind=5, loops=[(r"many0::<&\[u8\], u8", 9), (r"nfv2s9", 8)], timeout=1800, mem_gb=30, tier=_tier,
        desc="v9::FlowSet::parse, template flowset shape [%s] vs a symbolic one-entry cache: records as sent, padding, consumption, cache post-state (last wins, others untouched, incomplete record ignored)" % _shape,
        bounds={"shape": _shape + " (written)", "symbolic": "template ids, field types/lengths, padding bytes, cached entry, probe id"}))
for _nm, _shape, _tier in (("1_1", "1 scope + 1 option field + 2 padding", "quick"), ("2_0", "2 scope fields", "thorough"), ("0_2", "2 option fields + 3 padding", "thorough")):
    reg(["C04", "C06", "C01"], H("s9::s_v9_options_template_" + _nm, unwind=5, timeout=1800, mem_gb=30, tier=_tier,
        desc="v9::FlowSet::parse, options-template flowset shape [%s]: record as sent, padding, cached" % _shape,
        bounds={"shape": _shape + " (written)", "symbolic": "template id, field types/lengths, padding bytes"}))
reg(["C04", "C06", "C07", "C01"], H("s9::s_v9_data_dispatch", unwind=9, timeout=1200, mem_gb=10,
    desc="v9::FlowSet::parse, data id 300 vs symbolic template/options-template ids: dispatch order, consumption, unknown id => Err, caches unchanged",
    bounds={"body_bytes": "<=7", "cached": "1 template + 1 options template, symbolic ids"}, assumptions=[_D9]))
for sfx, what in (("t", "template id 0, length 11"), ("t_max", "template id 0, length 65535"), ("o", "options-template id 1, length 13"), ("d", "data id 300, length 11"), ("d_max", "data id 300, length 65535")):
    reg(["C14", "C06"], H("s9::s_v9_truncated_" + sfx, unwind=9, timeout=900, mem_gb=8,
        desc="v9::FlowSet::parse with declared length > available bytes (%s): Err, caches unchanged" % what,
        bounds={"available": 10, "declared_length": "written"}, assumptions=[_D9]))


# ---------------------------------------------------------------- D: V9 data records
_K9 = "FieldValue::from_field_type replaced by a model exact for UnsignedDataNumber lengths 0..=7 (exactness decided by k::k_unsigned)"
reg(["C04", "C01"], H("d9::d_v9_two_fields", unwind=4, timeout=2400, mem_gb=30, tier="thorough",
    desc="v9::Data::parse, 2 unsigned fields with symbolic declared lengths 0..=5: record count floor(7/size), values at offsets, keys/types/order, padding bytes, illegal width => no records",
    bounds={"body_bytes": 7, "fields": 2, "declared_lengths": "0..=5 each, sum >= 3", "records": "<=2"}, assumptions=[_K9]))
reg(["C04", "C01"], H("d9::d_v9_three_records", unwind=5, timeout=2400, mem_gb=30,
    desc="v9::Data::parse, one 2-byte field, 7-byte body: 3 records + 1 padding byte, values in order",
    bounds={"body_bytes": 7, "fields": 1, "records": 3}, assumptions=[_K9]))
for _fc in (0, 1, 2):
    reg(["C01"], H("d9::d_v9_zero_size_template_%d" % _fc, unwind=5, timeout=1200, mem_gb=10, tier="quick" if _fc == 1 else "thorough",
        desc="v9::Data::parse under a cached template of total length 0 (%d zero-length fields): no panic, no records, body is padding" % _fc,
        bounds={"body_bytes": 3, "fields": _fc}, assumptions=[_K9]))


# ---------------------------------------------------------------- W: parse_bytes
_WS = {"5_9": ("V5, V9", "quick"), "10_7_stray": ("IPFIX, V7, 1 stray byte", "quick"), "9_unknown": ("V9, version 6 + 5 bytes", "quick"),
       "7_5cut": ("V7, V5 cut to 10 bytes", "quick"), "10_10_10": ("3 x IPFIX", "thorough"), "5_10cut": ("V5, IPFIX cut by 1 byte", "thorough"),
       "9_9cut": ("V9, V9 cut to 3 bytes", "thorough"), "unknown_first": ("version 0xFFFF, then V5", "thorough")}
# structural loops get their own bounds; everything else (drop glue over result vectors that are
# empty for header-only packets, Vec growth) must exit within 1 iteration - checked by the unwinding assertions
_WL = [(r"nfv1w|w::", 5), (r"verif_shim", 5), (r"parse_bytes", 5), (r"extend|IntoIter|into_iter|from_iter", 5)]
_W = "V5Parser/V7Parser/V9Parser/IPFixParser::parse replaced by models exact on the domain 'header-only packets' (V5/V7/V9 count == 0, IPFIX length == 16); the models assume that domain"
for _nm, (_shape, _tier) in _WS.items():
    reg(["C02", "C11", "C12", "C14", "C06", "C01"], H("w::w_shape_" + _nm, unwind=2, loops=_WL, timeout=1800, mem_gb=16, tier=_tier, fs=4096,
        desc="parse_bytes on [%s] (header-only packets, modelled decoders) == reference decomposition for every allowed set: packets in order, at most one final Error whose remaining is the exact suffix from the version field, silent stop only at a disallowed version, unknown allowed version => UnknownVersion, caches untouched" % _shape,
        bounds={"shape": _shape + " (version/count/length bytes written)", "symbolic": "all other bytes, allowed_versions = 3 symbolic u16"}, assumptions=[_W]))
for _nm, _shape, _tier in (("5_stray", "V5 + 1 stray byte", "quick"), ("10", "IPFIX", "thorough"), ("9cut", "V9 cut by 5 bytes", "quick"), ("7_unknown", "V7, version 0x0101 + 2 bytes", "thorough")):
    reg(["C02", "C12", "C14", "C01"], H("w::w_real_" + _nm, unwind=2, loops=_WL, timeout=1800, mem_gb=16, tier=_tier, fs=4096,
        desc="parse_bytes on [%s] with the REAL decoders == reference decomposition for every allowed set" % _shape,
        bounds={"shape": _shape + " (version/count/length bytes written)", "symbolic": "all other bytes, allowed_versions = 3 symbolic u16"}))
reg(["C02"], H("w::w_empty", unwind=5, timeout=300, mem_gb=4,
    desc="parse_bytes(&[]) == [] for every allowed set", bounds={"allowed_versions": "3 symbolic u16"}))


# ---------------------------------------------------------------- S/T/D: IPFIX
_D10 = "ipfix::Data::parse / OptionsData::parse replaced by models exact on the harness domain (every cached field fixed-length >= 8, body <= 7 bytes => first field read fails => Err)"
for _nm, _shape, _tier in (("1p_pad3", "1 plain specifier + 3 padding bytes", "quick"), ("2p", "2 plain specifiers", "thorough"),
                          ("e_p", "enterprise + plain specifier + 2 padding bytes", "quick"), ("p_e", "plain + enterprise specifier", "thorough")):
    reg(["C05", "C06", "C01"], H("s10::s_ipfix_template_" + _nm, unwind=4, timeout=1500, mem_gb=30, tier=_tier,
        desc="ipfix::FlowSet::parse, template set shape [%s] vs symbolic one-entry cache: record as sent incl. enterprise numbers, padding, cache post-state (replace/add, other entry untouched); refused set leaves cache unchanged" % _shape,
        bounds={"shape": _shape + " (written)", "symbolic": "template id, ie ids, field lengths, enterprise numbers, padding bytes, cached entry"}))
reg(["C05"], H("s10::s_ipfix_template_two_records_kf", unwind=5, timeout=900, mem_gb=8, expect="fail", finding="C05-multi-record-template-set",
    desc="finding witness: template set with two records", bounds={"records": 2}))
reg(["C06"], H("s10::s_ipfix_template_short_record_kf", unwind=5, timeout=900, mem_gb=8, expect="fail", finding="C06-ipfix-truncated-template-cached",
    desc="finding witness: template record announcing more specifiers than present is cached", bounds={"field_count": 2, "specifiers_present": 1}))
for _nm, _shape, _tier in (("2_1", "2 plain specifiers, scope count 1, 2 padding bytes", "quick"), ("1_1_e", "1 enterprise specifier, scope count 1", "thorough")):
    reg(["C05", "C06", "C01"], H("s10::s_ipfix_options_template_" + _nm, unwind=5, timeout=1500, mem_gb=12, tier=_tier,
        desc="ipfix::FlowSet::parse, options-template set shape [%s]: record as sent, cached" % _shape,
        bounds={"shape": _shape + " (written)", "symbolic": "template id, ie ids, field lengths, enterprise numbers, padding bytes"}))
reg(["C06", "C07", "C01"], H("s10::s_ipfix_data_dispatch", unwind=5, timeout=1200, mem_gb=10,
    desc="ipfix::FlowSet::parse, data set id 300 vs symbolic cached ids: unknown id never reaches a decoder, caches unchanged",
    bounds={"body_bytes": "<=7", "cached": "1 template + 1 options template, symbolic ids"}, assumptions=[_D10]))
reg(["C05", "C01"], H("d10::d_ipfix_two_fields", unwind=4, timeout=2400, mem_gb=30, tier="thorough",
    desc="ipfix::Data::parse, 2 unsigned fields with symbolic fixed lengths 0..=5: flattened (index,type,value) sequence, record count, padding bytes; unsupported width => Err",
    bounds={"body_bytes": 7, "fields": 2, "declared_lengths": "0..=5 each, sum >= 3", "records": "<=2"}, assumptions=[_K9]))
reg(["C05", "C01"], H("d10::d_ipfix_three_records", unwind=5, timeout=2400, mem_gb=30,
    desc="ipfix::Data::parse, one 2-byte field, 7-byte body: 3 records (recursion depth 4) + 1 padding byte",
    bounds={"body_bytes": 7, "fields": 1, "records": 3}, assumptions=[_K9]))
reg(["C05", "C01"], H("d10::d_ipfix_two_records", unwind=3, loops=[(r"drop_glue|drop_in_place", 3)], timeout=2400, mem_gb=30, fs=4096,
    desc="ipfix::Data::parse, one 2-byte field, 5-byte body: 2 records + 1 padding byte", bounds={"body_bytes": 5, "fields": 1, "records": 2}, assumptions=[_K9]))
reg(["C05", "C01"], H("d10::d_ipfix_varlen_one_record", unwind=5, timeout=2400, mem_gb=30,
    desc="ipfix::Data::parse, variable-length field (1-byte and 255+2-byte prefix) + 1-byte field, one record",
    bounds={"body_bytes": "<=8", "varlen_value_bytes": "1..=4"}, assumptions=[_K9]))
reg(["C05"], H("d10::d_ipfix_varlen_second_shorter_kf", unwind=5, timeout=1200, mem_gb=12, expect="fail", finding="C05-varlen-short-record-dropped",
    desc="finding witness: second variable-length record shorter than the first is reported as padding", bounds={"body_bytes": 5}, assumptions=[_K9]))


# ---------------------------------------------------------------- P: packets
_S9 = "v9::FlowSet::parse replaced by a model exact on the domain 'empty caches; flowset id 0/1 with body < 4 bytes (no record fits, body = padding); other ids unknown => Err'; the model assumes that domain"
_S10 = "ipfix::FlowSet::parse replaced by a model exact on the domain 'set id 2, length 12, one plain specifier with non-zero length (cached)' or 'set id > 255 unknown to the caches => Err'; the model assumes that domain"
for _nm, _shape, _tier in (("two_sets_tail", "count 2: template flowset(6) + options-template flowset(7) + 5 trailing bytes", "quick"),
                          ("count_gt_sets", "count 3, one flowset, buffer ends", "quick"),
                          ("count_gt_sets_stray", "count 3, one flowset + 2 stray bytes", "quick"),
                          ("unknown_second", "count 2: template flowset then data flowset for an undefined id", "quick"),
                          ("truncated_second", "count 2: second flowset announces 40 bytes, 6 present", "thorough"),
                          ("count0_tail", "count 0 + 6 trailing bytes", "thorough")):
    reg(["C02", "C04", "C07", "C11", "C14", "C01"], H("p::p_v9_" + _nm, unwind=5, timeout=1800, mem_gb=36, tier=_tier,
        desc="V9::parse on [%s]: header as sent, first `count` flowsets (or until the buffer ends), consumed = 20 + sum(length), any failing flowset fails the packet" % _shape,
        bounds={"shape": _shape + " (written)", "symbolic": "header words, padding bytes"}, assumptions=[_S9]))
for _nm, _shape, _tier in (("two_templates_tail", "2 template sets + 3 bytes after the message", "quick"),
                          ("template_then_unknown", "template set then data set for an undefined id", "quick"),
                          ("truncated_after_template", "template set + data set, announced length 2 bytes beyond the buffer", "quick"),
                          ("header_only_tail", "no set, 4 bytes after the message", "thorough")):
    reg(["C02", "C05", "C07", "C11", "C14", "C01"], H("p::p_ipfix_" + _nm, unwind=5, timeout=1800, mem_gb=24, tier=_tier,
        desc="IPFix::parse on [%s]: header as sent, window = length-16, decodable sets reported in order, undecodable set omitted, length beyond buffer => Err before anything is learned" % _shape,
        bounds={"shape": _shape + " (written)", "symbolic": "header words, template ids, field specifiers"}, assumptions=[_S10]))
reg(["C05"], H("p::p_ipfix_sets_after_skipped_kf", unwind=5, timeout=1800, mem_gb=24, expect="fail", finding="C05-sets-after-undecodable-dropped",
    desc="finding witness: a decodable set after an undecodable one is dropped", bounds={"shape": "data set for an undefined id, then a template set"}, assumptions=[_S10]))


# ---------------------------------------------------------------- serializers (C09, C10)
for _nm, _shape, _tier in (("2f", "1 record x 2 fields", "quick"), ("1f_pad3", "1 record x 1 field + 3 padding bytes", "quick"), ("1f_1f", "2 records x 1 field + 2 padding bytes", "thorough")):
    reg(["C09", "C01"], H("ser::ser_v9_template_" + _nm, unwind=3, loops=[(r"many0::<&\[u8\], u8", 5), (r"nfv3ser", 24)], timeout=1500, mem_gb=12, tier=_tier,
        desc="V9: to_be_bytes(header + FlowSet::parse(template flowset [%s])) == header bytes || flowset bytes incl. padding" % _shape,
        bounds={"shape": _shape + " (written)", "symbolic": "ids, field types/lengths, padding bytes, packet header"}))
reg(["C09", "C01"], H("ser::ser_v9_options_template_1_1", unwind=3, loops=[(r"many0::<&\[u8\], u8", 5), (r"nfv3ser", 24)], timeout=1500, mem_gb=12, tier="thorough",
    desc="V9: options-template flowset (1 scope + 1 option field + 2 padding) re-export == input", bounds={"shape": "written"}))
for _l, _tier in ((2, "quick"), (3, "thorough"), (4, "thorough")):
    reg(["C09", "C01"], H("ser::ser_v9_data_%d" % _l, unwind=4, loops=[(r"nfv3ser", 24)], timeout=2400, mem_gb=20, tier=_tier,
        desc="V9: data flowset (one unsigned field of %d bytes, 7-byte body: %d records + %d padding) decode + re-export == input incl. padding" % (_l, 7 // _l, 7 % _l),
        bounds={"body_bytes": 7, "field_length": _l}, assumptions=[_K9]))
reg(["C09", "C01"], H("ser::ser_v9_options_data", unwind=9, timeout=2400, mem_gb=30, tier="thorough",
    desc="V9: options-data flowset (1 scope + 1 option field, padding) re-export == input", bounds={"body_bytes": 6}))
reg(["C09", "C01"], H("ser::ser_v9_short_length", unwind=2, loops=[(r"nfv3ser", 24)], timeout=900, mem_gb=12,
    desc="V9: template / options-template flowset with length field 0..3 re-exports as its 4 header bytes", bounds={"length": "0..=3"}))
reg(["C10", "C01"], H("ser::ser_ipfix_template_plain", unwind=4, loops=[(r"many0::<&\[u8\], u8", 5), (r"nfv3ser", 24)], timeout=1500, mem_gb=12,
    desc="IPFIX: template set (1 record, 2 plain specifiers, 2 padding bytes) re-export == input", bounds={"shape": "written"}))
reg(["C10", "C01"], H("ser::ser_ipfix_template_plain_1", unwind=3, loops=[(r"many0::<&\[u8\], u8", 5), (r"nfv3ser", 24)], timeout=1500, mem_gb=12, tier="thorough",
    desc="IPFIX: template set (1 record, 1 plain specifier, 3 padding bytes) re-export == input", bounds={"shape": "written"}))
reg(["C10"], H("ser::ser_ipfix_template_enterprise_kf", unwind=4, loops=[(r"many0::<&\[u8\], u8", 5), (r"nfv3ser", 24)], timeout=1500, mem_gb=12, expect="fail", finding="C10-enterprise-bit",
    desc="finding witness: enterprise specifier re-exported without the E bit", bounds={"shape": "enterprise + plain specifier"}))
for _l, _tier in ((2, "quick"), (4, "thorough")):
    reg(["C10", "C01"], H("ser::ser_ipfix_data_%d" % _l, unwind=4, loops=[(r"nfv3ser", 24)], timeout=2400, mem_gb=30, tier=_tier,
        desc="IPFIX: data set (one unsigned field of %d bytes, 5-byte body) decode + re-export == input incl. padding" % _l,
        bounds={"body_bytes": 5, "field_length": _l}, assumptions=[_K9]))
reg(["C10"], H("ser::ser_ipfix_varlen_kf", unwind=3, loops=[(r"nfv3ser", 24)], timeout=1500, mem_gb=12, expect="fail", finding="C10-varlen-prefix",
    desc="finding witness: variable-length prefix not re-exported", bounds={"body_bytes": 3}, assumptions=[_K9]))


# ---------------------------------------------------------------- common view (C13)
_SHAPE = "input structures have the shape the K/D layers are shown to produce (variant per data type; V9 one map per record, IPFIX one single-entry map per field)"
for _nm, _shape, _tier in (("v4_full_2rec", "2 records: IPv4 src, ports, IPv4 dst", "quick"), ("v6_ports_swapped", "1 record: port field before IPv6 src", "quick"), ("v4_only", "1 record: IPv4 src only", "thorough")):
    reg(["C13", "C01"], H("cv::cv_v9_" + _nm, unwind=5, loops=[(r"^memcmp", 20)], timeout=1800, mem_gb=16, tier=_tier,
        desc="V9 common view (NetflowCommon::from(&V9)) on [%s]: one flow per record in order, present fields equal, absent None" % _shape,
        bounds={"shape": _shape + " (written)", "symbolic": "all values"}, assumptions=[_SHAPE]))
reg(["C13"], H("cv::cv_v9_mac", unwind=8, timeout=900, mem_gb=8, tier="thorough",
    desc="V9 common view: MAC text projected", bounds={"records": 1}, assumptions=[_SHAPE]))
reg(["C13"], H("cv::cv_v9_protocol_times_kf", unwind=6, timeout=900, mem_gb=8, expect="fail", finding="C13-v9-protocol-times",
    desc="finding witness: V9 protocol / first-switched present but projected as None", bounds={"records": 1}, assumptions=[_SHAPE]))
for _nm, _shape, _tier in (("src4_2rec", "2 records of one IPv4 source field", "quick"), ("dst6", "1 record, IPv6 destination", "thorough"), ("port_2rec", "2 records, destination port", "thorough"),
                          ("proto", "1 record, protocolIdentifier", "quick"), ("start", "1 record, flowStartSysUpTime", "thorough")):
    reg(["C13", "C01"], H("cv::cv_ipfix_" + _nm, unwind=5, timeout=1800, mem_gb=16, tier=_tier,
        desc="IPFIX common view (NetflowCommon::from(&IPFix)), single-field template [%s]: one flow per record in order, the field projected, others None" % _shape,
        bounds={"shape": _shape + " (written)", "symbolic": "all values"}, assumptions=[_SHAPE]))
reg(["C13"], H("cv::cv_ipfix_two_fields_kf", unwind=6, timeout=900, mem_gb=8, expect="fail", finding="C13-ipfix-flow-per-field",
    desc="finding witness: a two-field IPFIX record yields two flows", bounds={"records": 1, "fields": 2}, assumptions=[_SHAPE]))
reg(["C13", "C01"], H("cv::cv_flowsets_concat", unwind=4, timeout=2400, mem_gb=30, tier="thorough",
    desc="parse_bytes_as_netflow_common_flowsets on V5(count 1) + V7(count 0) + stray byte: exactly the V5 record's flow, error contributes nothing (real decoders, versions/counts written)",
    bounds={"bytes": 97, "structure": "written", "values": "symbolic"}))


# ---------------------------------------------------------------- end-to-end histories
_E = {"structure": "written (versions, lengths, counts, field type 1 / length 2)", "symbolic": "template id, data set id, header words, data bytes"}
reg(["C06", "C07", "C11", "C05", "C01"], H("e2e::e2e_ipfix_chained", unwind=6, timeout=3000, mem_gb=30, mem_est=20, tier="thorough",
    desc="parse_bytes(template message || data message), real IPFIX decoder: packet 2 decoded with the template learned from packet 1 (same parser for the tail); undefined id => set omitted; V9 cache untouched",
    bounds=dict(_E, bytes=52, packets=2, records=2), assumptions=[_K9]))
reg(["C06", "C11"], H("e2e::e2e_ipfix_split", unwind=6, timeout=3000, mem_gb=30, tier="thorough",
    desc="same history delivered in two parse_bytes calls gives the same results", bounds=dict(_E, bytes=52, packets=2), assumptions=[_K9]))
reg(["C06", "C07"], H("e2e::e2e_ipfix_two_parsers", unwind=6, timeout=3000, mem_gb=30, tier="thorough",
    desc="template learned by one parser instance is invisible to another", bounds=dict(_E, bytes=52), assumptions=[_K9]))
reg(["C06", "C07", "C11", "C04", "C01"], H("e2e::e2e_v9_chained", unwind=6, timeout=3000, mem_gb=30, mem_est=20, tier="thorough",
    desc="parse_bytes(V9 template packet || V9 data packet): data decoded with the template from packet 1; undefined id => Error element carrying packet 2; IPFIX cache untouched",
    bounds=dict(_E, bytes=60, packets=2, records=2), assumptions=[_K9]))
reg(["C06", "C11"], H("e2e::e2e_v9_split", unwind=6, timeout=3000, mem_gb=30, tier="thorough",
    desc="same V9 history in two calls gives the same results", bounds=dict(_E, bytes=60), assumptions=[_K9]))
reg(["C06", "C07"], H("e2e::e2e_v9_template_ipfix_data", unwind=6, timeout=3000, mem_gb=30, tier="thorough",
    desc="a V9 template does not govern an IPFIX data set of the same id (protocol scoping)", bounds=dict(_E, bytes=56), assumptions=[_K9]))

for _v in (5, 9, 10):
    reg(["C12", "C06"], H("w::w_allowed_narrowed_%d" % _v, unwind=2, loops=_WL, timeout=1500, mem_gb=16, tier="quick" if _v == 9 else "thorough",
        desc="allowed_versions narrowed between two calls (version %d header-only packet): accepted while allowed, silently dropped once v is removed from the set" % _v,
        bounds={"calls": 2, "allowed": "default set, then v removed and a symbolic other number added"}, assumptions=[_W]))
for _v in (5, 9, 10):
    reg(["C12", "C06"], H("w::w_allowed_four_%d" % _v, unwind=6, loops=_WL, timeout=1500, mem_gb=16, tier="quick" if _v == 10 else "thorough",
        desc="four-member symbolic allow-list (the default list has four members too): a header-only version %d packet is reported iff %d is one of the four numbers" % (_v, _v),
        bounds={"allowed": "4 symbolic u16 (duplicates allowed)"}, assumptions=[_W]))
reg(["C07", "C06"], H("p::p_v9_unknown_then_template", unwind=5, timeout=1800, mem_gb=24,
    desc="V9::parse on [data flowset for an undefined id, then the template flowset defining a (symbolic) id]: packet is an error and nothing is cached (flowset order matters: a later template does not rescue earlier data)",
    bounds={"shape": "count 2: data(id 300, 8 bytes) + template flowset with one 1-field record (written)", "symbolic": "template id, field, data bytes"}, assumptions=[_S9]))
reg(["C06", "C07", "C01"], H("s10::s_ipfix_undecodable_data_keeps_template", unwind=4, timeout=1800, mem_gb=24,
    desc="ipfix::FlowSet::parse with the REAL Data/OptionsData::parse on a data set shorter than one record: refused, and the referenced (options) template is still cached afterwards",
    bounds={"body_bytes": "<=7", "cached": "one (options) template, id 300, one unsigned field declared >= 8 bytes"},
    assumptions=["kernel replaced by the model 'fewer bytes than declared => Err' (exact for unsigned fields, k::k_unsigned)"]))


# ---------------------------------------------------------------- C17: parse_unknown_fields off
_OFF = "harness crate /verif/kani_off builds /repo with default-features = false; the oracle (model) is the same source as in the default build, so a pass means identical behaviour on the covered inputs"
for _nm, _unw, _tier, _d in (("k_unsigned", 18, "quick", "unsigned kernel"), ("k_ip4", 7, "quick", "IPv4 kernel"), ("k_vec", 7, "quick", "byte-vector kernel"),
                             ("k_proto", 4, "thorough", "protocol kernel"), ("k_signed", 18, "thorough", "signed kernel"), ("k_ip6", 18, "thorough", "IPv6 kernel"),
                             ("k_dur_millis", 18, "thorough", "duration(ms) kernel"), ("k_mac", 8, "thorough", "MAC kernel"), ("k_f64", 10, "thorough", "float kernel")):
    reg(["C17"], H("k::" + _nm, unwind=_unw, feature="off", timeout=900, mem_gb=6, tier=_tier,
        desc="feature off: %s equals the same reference as in the default build (decode, consumption, re-export)" % _d,
        bounds=dict(_KB), assumptions=[_OFF]))
reg(["C17"], H("k::k_unknown_off", unwind=7, feature="off", timeout=600, mem_gb=4,
    desc="feature off: a field of unknown type never decodes, for every declared length and input", bounds=dict(_KB, MAXB=5), assumptions=[_OFF]))
reg(["C17"], H("d9::d_v9_unknown_field_off", unwind=8, feature="off", timeout=1500, mem_gb=12,
    desc="feature off: V9 data flowset under a template with an unknown field type yields no record",
    bounds={"body_bytes": 6, "field_type": "every number the library maps to Unknown", "field_length": "1..=3"},
    assumptions=[_OFF, "kernel replaced by the model 'Unknown => Err' that k::k_unknown_off shows exact"]))
reg(["C17"], H("d10::d_ipfix_unknown_field_off", unwind=3, loops=[(r"drop_glue|drop_in_place", 3)], feature="off", timeout=1800, mem_gb=30,
    desc="feature off: IPFIX data set under a template with an unknown field type is not decoded",
    bounds={"body_bytes": 4, "field_type": "every number < 32768 the library maps to Unknown", "field_length": "1..=3 or 65535 (variable length)"},
    assumptions=[_OFF, "kernel replaced by the model 'Unknown => Err' that k::k_unknown_off shows exact"]))
reg(["C17"], H("s9::s_v9_template_2f", unwind=5, feature="off", timeout=1500, mem_gb=12, tier="thorough",
    desc="feature off: V9 template flowset decoding/caching equals the default build's reference", bounds={"shape": "1 record x 2 fields"}, assumptions=[_OFF]))
reg(["C17"], H("ser::ser_v9_data_2", unwind=5, loops=[(r"nfv3ser", 24)], feature="off", timeout=2400, mem_gb=30, tier="thorough",
    desc="feature off: V9 data flowset decode + re-export equals the default build's reference", bounds={"body_bytes": 7}, assumptions=[_OFF, _K9]))
reg(["C17"], H("fixed::v5_common_2", unwind=4, feature="off", timeout=900, mem_gb=8, tier="thorough",
    desc="feature off: common conversion unchanged (V5)", bounds={"records": 2}, assumptions=[_OFF]))


# ---------------------------------------------------------------- per-version entry points (real)
for _l, _tier in ((16, "thorough"), (17, "quick"), (22, "quick"), (3, "thorough"), (29, "thorough")):
    reg(["C02", "C11", "C14", "C05", "C06", "C07", "C01"], H("w::wr_ipfix_entry_%d" % _l, unwind=6, timeout=1500, mem_gb=12, tier=_tier,
        desc="IPFixParser::parse, message length %d (written), no decodable set: remaining starts exactly at max(length,16) (no skipping/alignment), Err iff the window exceeds the buffer, caches untouched" % _l,
        bounds={"bytes": 26, "length": _l, "sets": "one undecodable data set (id 300)"}))
for _nm, _w, _tier in (("c0_s3", "count 0 + 3 stray bytes", "quick"), ("c2_s0", "count 2, nothing after the header", "thorough"),
                       ("c2_s2", "count 2 + 2 stray bytes", "thorough"), ("c1_s3", "count 1 + 3 stray bytes", "quick")):
    reg(["C02", "C11", "C14", "C04", "C01"], H("w::wr_v9_entry_" + _nm, unwind=6, timeout=1500, mem_gb=12, tier=_tier,
        desc="V9Parser::parse, %s: stray bytes shorter than a flowset header are never absorbed (Err) and unconsumed bytes are handed back" % _w,
        bounds={"shape": _w + " (count written)"}))
for _nm, _w, _tier in (("v5_entry_1", "V5 count 1 + 3 trailing bytes", "quick"), ("v5_entry_1_cut", "V5 count 1 cut by 1 byte", "thorough"),
                       ("v7_entry_1", "V7 count 1 + 3 trailing bytes", "quick"), ("v7_entry_0", "V7 count 0 + 3 trailing bytes", "thorough")):
    reg(["C02", "C11", "C14", "C01"], H("w::wr_" + _nm, unwind=4, timeout=1500, mem_gb=12, tier=_tier,
        desc="%s through the V5Parser/V7Parser entry: remaining is the exact suffix, truncation => Partial with the right version" % _w,
        bounds={"shape": _w + " (count written)"}))


# ---------------------------------------------------------------- C15: allocation for bytes not present
_ACCT = "the Rust global allocator is Kani's model (kani_lib.c: malloc per request, never fails) extended with three counters (vlib/kani_lib_acct.c): bytes requested, number of requests, largest request; deallocation is not credited"
for _nm, _d, _b in (
    ("c15_v5_count", "V5Parser::parse, header.count symbolic (all 65536 values) over a buffer holding no complete record", {"bytes": 27, "count": "every 16-bit value"}),
    ("c15_v7_count", "V7Parser::parse, header.count symbolic over a buffer holding no complete record", {"bytes": 27, "count": "every 16-bit value"}),
    ("c15_v9_count_32_bare", "V9Parser::parse, header.count 32 (written) and nothing behind the header: accepted with no flowsets, nothing allocated per announced flowset", {"bytes": 18}),
    ("c15_v9_template_field_count_max", "v9::FlowSet::parse, template record announcing 65535 fields over an 8-byte body", {"bytes": 12}),
    ("c15_v9_template_field_count_4097", "v9::FlowSet::parse, template record announcing 4097 fields over an 8-byte body", {"bytes": 12}),
    ("c15_v9_options_template_lengths_max", "v9::FlowSet::parse, options template announcing scope/option lengths 65535/65535 over a 10-byte body", {"bytes": 14}),
    ("c15_v9_options_template_lengths_4_max", "v9::FlowSet::parse, options template announcing scope/option lengths 4/65535 over a 10-byte body", {"bytes": 14}),
    ("c15_v9_flowset_length_t", "v9::FlowSet::parse, template flowset announcing length 65535 with 6 bytes present: nothing allocated", {"bytes": 6}),
    ("c15_v9_flowset_length_o", "v9::FlowSet::parse, options-template flowset announcing length 65535 with 6 bytes present: nothing allocated", {"bytes": 6}),
    ("c15_v9_flowset_length_d", "v9::FlowSet::parse, data flowset announcing length 65535 with 6 bytes present: nothing allocated", {"bytes": 6}),
    ("c15_ipfix_length", "IPFixParser::parse, message announcing length 65535 over 20 bytes: only the error copies", {"bytes": 18}),
    ("c15_ipfix_template_field_count_max", "ipfix::FlowSet::parse, template record announcing 65535 fields over an 8-byte body", {"bytes": 12}),
    ("c15_ipfix_template_field_count_1", "ipfix::FlowSet::parse, template record announcing 1 field, 8-byte body (accepted)", {"bytes": 12}),
    ("c15_ipfix_options_template_counts_max", "ipfix::FlowSet::parse, options template announcing field/scope counts 65535/65535 over a 10-byte body", {"bytes": 14}),
    ("c15_ipfix_options_template_counts_max_1", "ipfix::FlowSet::parse, options template announcing field/scope counts 65535/1 over a 10-byte body", {"bytes": 14}),
    ("c15_kernel_vec", "FieldValue::from_field_type(Vec): any declared length over <= 5 available bytes", {"available": "0..=5", "declared": "all 65536"}),
    ("c15_kernel_string", "FieldValue::from_field_type(String): any declared length over <= 5 available bytes", {"available": "0..=5", "declared": "all 65536"}),
):
    reg(["C15"], H("c15::" + _nm, tier="thorough" if _nm == "c15_kernel_string" else "quick", unwind=8 if "kernel" in _nm else 3,
        loops=[(r"many0::<&\[u8\], u8", 12)] + ([(r"try_fold", 34)] if "bare" in _nm else []), timeout=600, mem_gb=12, acct=True,
        desc=_d + ": largest single heap request <= 64 KiB (nom's pre-allocation cap) and total requested <= 64 KiB + 8 x bytes present + 512; every loop exits within the unwinding bound (no work per announced-but-absent element)",
        bounds=dict(_b), assumptions=[_ACCT]))


# ---------------------------------------------------------------- H: public-API histories (structure written, payload symbolic)
_HL = [(r"nfv\d*h|h::", 24), (r"many0::<&\[u8\], u8", 6), (r"verif_shim", 6), (r"extend|IntoIter|into_iter|from_iter", 8), (r"drop_glue|drop_in_place", 8)]
_HB = {"structure": "written (versions, counts, set ids/lengths, template ids, field specifiers, length prefixes)", "symbolic": "header words, enterprise numbers, data bytes, padding"}
for _nm, _props, _d in (
    ("h_ipfix_template_twice_padding_reexport", ["C10", "C05"], "IPFIX: same template id announced twice with different trailing padding: each message reported as sent and to_be_bytes returns exactly its own bytes"),
    ("h_ipfix_set_beyond_message", ["C11", "C05", "C06", "C14"], "IPFIX: last set announces a length beyond the message: never completed with the next message's bytes; chained == per-call, same cache"),
):
    reg(_props, H("h::" + _nm, unwind=4, loops=_HL, timeout=1500, mem_gb=24, tier="thorough", fs=4096,
        desc="history through parse_bytes with the real decoders: " + _d, bounds=dict(_HB)))


# ---------------------------------------------------------------- S/T against a cached entry of the same shape
reg(["C04", "C06", "C09", "C01"], H("s9::s_v9_template_2f_c2", unwind=5, loops=[(r"many0::<&\[u8\], u8", 9), (r"nfv2s9", 8)], timeout=1800, mem_gb=30,
    desc="v9::FlowSet::parse, template flowset [1 record x 2 fields] vs a cached template with TWO symbolic fields (may share id, types, total size with the incoming one): record as sent, cache = latest definition, other id untouched",
    bounds={"shape": "1 record x 2 fields (written)", "symbolic": "ids, field types/lengths, cached 2-field entry, probe id"}))
reg(["C04", "C06", "C01"], H("s9::s_v9_options_template_1_1_c", unwind=5, timeout=1800, mem_gb=30,
    desc="v9::FlowSet::parse, options-template flowset [1 scope + 1 option field] vs a cached options template of the same shape with symbolic id/fields: latest definition cached, other id untouched",
    bounds={"shape": "1 scope + 1 option field (written)", "symbolic": "ids, field types/lengths, cached entry"}))
for _nm, _shape in (("2p_c2", "2 plain specifiers vs cached 2-field template with 2 padding bytes"), ("1p_c1pad", "1 plain specifier, no padding, vs cached 1-field template with 2 padding bytes")):
    reg(["C05", "C06", "C10", "C01"], H("s10::s_ipfix_template_" + _nm, unwind=4, timeout=1500, mem_gb=30,
        desc="ipfix::FlowSet::parse, template set [%s] (cached entry may coincide with the incoming record in id and fields, padding differs): record reported as sent (own padding, own field_count), cache = latest definition" % _shape,
        bounds={"shape": _shape + " (written)", "symbolic": "template id, ie ids, field lengths, cached entry incl. padding"}))
for _nm, _shape in (("2_1_c1", "2 specifiers vs cached 1-field options template (redefinition by appending)"), ("1_1_c2", "1 specifier vs cached 2-field options template (redefinition by dropping)"), ("2_1_c2", "2 specifiers vs cached 2-field options template")):
    reg(["C05", "C06", "C01"], H("s10::s_ipfix_options_template_" + _nm, unwind=5, timeout=1500, mem_gb=30,
        desc="ipfix::FlowSet::parse, options-template set [%s]: record as sent, cache = latest definition whatever the cached one looks like, other id untouched" % _shape,
        bounds={"shape": _shape + " (written)", "symbolic": "template ids, scope counts, ie ids, field lengths, cached entry"}))


def all_harnesses():
    return list(_ALL)


# quick tier overrides decided by measurement (see DESIGN section 8): harnesses that do not finish
# within the quick budget run in the thorough tier only
THOROUGH_ONLY = [r"^ser::", r"^cv::", r"s_ipfix_undecodable", r"^p::p_v9_(two_sets_tail|count_gt)", r"^d10::", r"^e2e::", r"^d9::d_v9_two_fields",
                 r"^w::w_real_5_stray", r"^fixed::error_common", r"count_\d+$"]
# per-property quick-tier exclusions (the harness still runs in that property's thorough tier and in
# the quick tier of the other properties it serves): keeps every quick command well under 900 s
QUICK_EXCLUDE = {"C04": [r"^p::p_v9_unknown_second$"],
                 "C06": [r"^w::w_shape_(10_7_stray|7_5cut|9_unknown)$", r"^w::w_allowed_four_10$", r"^s10::s_ipfix_template_e_p$", r"^s10::s_ipfix_options_template_2_1$",
                         r"^s10::s_ipfix_template_(2p_c2|1p_c1pad)$", r"^s10::s_ipfix_options_template_(1_1_c2|2_1_c2)$"],
                 "C05": [r"^s10::s_ipfix_template_e_p$", r"^s10::s_ipfix_options_template_2_1$",
                         r"^s10::s_ipfix_template_(2p_c2|1p_c1pad)$", r"^s10::s_ipfix_options_template_(1_1_c2|2_1_c2)$"],
                 "C10": [r"^s10::s_ipfix_template_2p_c2$"],
                 "C02": [r"^w::w_shape_10_7_stray$", r"^p::p_v9_unknown_second$"],
                 "C11": [r"^w::w_shape_9_unknown$", r"^p::p_v9_unknown_second$"],
                 "C12": [r"^w::w_shape_7_5cut$"],
                 "C14": [r"^w::w_shape_5_9$", r"^p::p_v9_unknown_second$"]}
C01_QUICK = {"k::k_unsigned", "k::k_vec", "d9::d_v9_zero_size_template_1", "d9::d_v9_three_records", "s9::s_v9_template_1f_trunc",
             "s9::s_v9_data_dispatch", "s10::s_ipfix_data_dispatch", "w::w_real_9cut", "w::wr_ipfix_entry_22", "w::wr_v9_entry_c1_s3",
             "fixed::v5_reexport_1", "s9::s_v9_truncated_d_max", "w::w_shape_7_5cut",
             "k::k_signed", "k::k_proto", "k::k_ip4", "fixed::v5_layout", "s9::s_v9_template_2f_c2"}

import re as _re


def harnesses_for(pid, tier, seed=0):
    out = []
    for h in _ALL:
        if pid in h.props and (tier == "deep" or h.tier == "quick" or (tier == "thorough" and h.tier != "deep")):
            if pid == "C01" and tier == "quick" and not (h.name in C01_QUICK and h.feature == "on"):
                continue
            if tier == "quick" and any(_re.search(p_, h.name) for p_ in QUICK_EXCLUDE.get(pid, [])):
                continue
            out.append(h)
    return out
reg(["X"], H("x::x_entry_sorted", unwind=4, timeout=900, mem_gb=30, bytewise=256))
reg(["X"], H("x::x_entry_unsorted", unwind=4, timeout=900, mem_gb=30))
reg(["X"], H("x::x_insert_sorted", unwind=4, timeout=900, mem_gb=30))

# Harnesses that were written and run but did NOT reach a verdict within 600-1200 s / 30 GB on
# this machine (measured 2026-10-05; symex of un-stubbed data paths, packet-level serializers,
# common-view conversions of heap structures): tier "deep".  They are not part of the registered
# quick/thorough commands (a run that cannot finish can only ever report "inconclusive");
# `./check <id> --tier deep` still runs them.  See DESIGN.md section 8.
DEEP = [r"^ser::", r"^cv::", r"^e2e::", r"^d10::", r"^h::", r"^d9::d_v9_two_fields$", r"^w::wr_v9_entry_c2_s2$",
        r"^fixed::error_common$", r"^fixed::v5_count_300$", r"^fixed::v7_count_(31|257)$", r"^k::k_string$",
        r"^s9::s_v9_template_1f_0f_1f$", r"^w::w_real_(5_stray|10|7_unknown)$", r"^p::p_v9_count_gt_sets(_stray)?$", r"^p::p_v9_two_sets_tail$",
        r"^s10::s_ipfix_undecodable_data_keeps_template$"]

for _h in _ALL:
    if any(_re.search(p_, _h.name) for p_ in THOROUGH_ONLY):
        _h.tier = "thorough"
    if any(_re.search(p_, _h.name) for p_ in DEEP):
        _h.tier = "deep"
