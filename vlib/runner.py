"""Kani/CBMC harness runner: build from /repo's working tree, derive per-loop unwind
bounds from the goto binary, run CBMC through `cargo kani`, parse per-check verdicts,
replay counterexamples natively.  Used by /verif/check."""
import glob
import hashlib
import json
import os
import re
import shutil
import signal
import subprocess
import threading
import time

VERIF = os.path.dirname(os.path.dirname(os.path.abspath(__file__)))
TARGET = os.path.join(VERIF, "target")
CRATES = {"on": os.path.join(VERIF, "kani"), "off": os.path.join(VERIF, "kani_off")}
REPLAY_CRATE = os.path.join(VERIF, "replay")
# The registered checks always verify /repo.  For development (running the checks against a
# seeded change in a scratch worktree while /repo stays untouched) VERIF_REPO=<dir> makes the
# driver work on copies of the harness crates whose path dependency points at <dir>, with
# their own build directory.
REPO = os.path.abspath(os.environ.get("VERIF_REPO", "/repo"))
if REPO != "/repo":
    TARGET = os.path.join(VERIF, "target", "alt_" + hashlib.sha1(REPO.encode()).hexdigest()[:10])
    _cr = os.path.join(TARGET, "crates")
    for _n in ("kani", "kani_off", "replay"):
        _dst = os.path.join(_cr, _n)
        if os.path.exists(_dst):
            shutil.rmtree(_dst)
        shutil.copytree(os.path.join(VERIF, _n), _dst, ignore=shutil.ignore_patterns("target"))
        _ct = os.path.join(_dst, "Cargo.toml")
        _txt = open(_ct).read().replace('path = "/repo"', 'path = "%s"' % REPO)
        open(_ct, "w").write(_txt)
    CRATES = {"on": os.path.join(_cr, "kani"), "off": os.path.join(_cr, "kani_off")}
    REPLAY_CRATE = os.path.join(_cr, "replay")
CRATE_NAME = {"on": "nfv", "off": "nfv_off"}

ENV = dict(os.environ)
ENV["CARGO_NET_OFFLINE"] = "true"
ENV.pop("RUSTFLAGS", None)

# nom's fixed-width big-endian readers are loops over a constant byte count; give each its
# natural bound (+1 for the exit test) regardless of the harness's structural bound.
NATURAL_LOOPS = [
    (r"^memcmp\.", 20),
    (r"be_u128|be_i128", 17),
    (r"be_u64|be_i64|be_f64", 9),
    (r"be_u32|be_i32|be_f32", 5),
    (r"be_u24|be_i24", 4),
    (r"be_u16|be_i16", 3),
    (r"be_u8|be_i8", 2),
]


def mangled_suffix(harness):
    parts = harness.split("::")
    out = ""
    for p in parts:
        if p[0].isdigit() or p[0] == "_":
            out += "%d_%s" % (len(p), p)
        else:
            out += "%d%s" % (len(p), p)
    return out


class Result(dict):
    __getattr__ = dict.get


def _run(cmd, cwd, timeout, log, env=None):
    """Run cmd with its own process group; on timeout kill the whole group."""
    t0 = time.time()
    with open(log, "ab") as lf:
        lf.write(("\n$ " + " ".join(cmd) + "\n").encode())
        lf.flush()
        p = subprocess.Popen(cmd, cwd=cwd, stdout=lf, stderr=subprocess.STDOUT,
                             env=env or ENV, start_new_session=True)
        try:
            rc = p.wait(timeout=timeout)
            timed_out = False
        except subprocess.TimeoutExpired:
            timed_out = True
            try:
                os.killpg(p.pid, signal.SIGKILL)
            except ProcessLookupError:
                pass
            p.wait()
            rc = -9
    return rc, timed_out, time.time() - t0


def _group_rss_kb(pgid):
    tot = 0
    try:
        out = subprocess.run(["ps", "-eo", "pgid=,rss="], capture_output=True, text=True).stdout
        for line in out.splitlines():
            a = line.split()
            if len(a) == 2 and a[0] == str(pgid):
                tot += int(a[1])
    except Exception:
        pass
    return tot


def _run_watched(cmd, cwd, timeout, log, mem_cap_gb, truncate=False, env=None):
    """Like _run but also watches the RSS of the process group (ulimit -v makes CBMC abort
    far below its real footprint, so RSS is polled instead)."""
    t0 = time.time()
    peak = 0
    killed = None
    with open(log, "wb" if truncate else "ab") as lf:
        lf.write(("\n$ " + " ".join(cmd) + "\n").encode())
        lf.flush()
        p = subprocess.Popen(cmd, cwd=cwd, stdout=lf, stderr=subprocess.STDOUT, env=env or ENV,
                             start_new_session=True)
        while True:
            try:
                rc = p.wait(timeout=2)
                break
            except subprocess.TimeoutExpired:
                pass
            rss = _group_rss_kb(p.pid)
            peak = max(peak, rss)
            if time.time() - t0 > timeout:
                killed = "timeout"
            elif rss > mem_cap_gb * 1024 * 1024:
                killed = "memory"
            if killed:
                try:
                    os.killpg(p.pid, signal.SIGKILL)
                except ProcessLookupError:
                    pass
                p.wait()
                rc = -9
                break
    return rc, killed, time.time() - t0, peak / 1024.0 / 1024.0


PROP_RE = re.compile(r"^\[((?:.+?\.)?([A-Za-z_\-]+)\.(\d+))\] (?:line (\d+) )?(.*?): (SUCCESS|FAILURE|UNKNOWN|ERROR|INCONCLUSIVE)$", re.M | re.S)
KANI_ID_RE = re.compile(r"^\[?(KANI_CHECK_ID_[^\]\s]+)\]?\s*")


def parse_cbmc_text(text):
    """Parse CBMC's plain-text result section and apply Kani's post-processing rules
    (kani-driver/src/cbmc_property_renderer.rs): reachability_check properties mark
    unreachable assertions and are then dropped; cover properties invert; a failed
    unwinding assertion makes everything else undetermined."""
    out = {"checks": [], "verdict": None}
    m = re.search(r"^\*\* Results:\n", text, re.M)
    body = text[m.end():] if m else ""
    # split into per-property lines: each begins with '[' at line start and ends with ': STATUS'
    cur_fn = ""
    reach = {}
    raw = []
    for blk in re.split(r"\n(?=\[|\S+ function )", "\n" + body):
        blk = blk.strip("\n")
        if not blk:
            continue
        if not blk.startswith("["):
            mm = re.match(r"(\S+) function (.*)", blk)
            if mm:
                cur_fn = mm.group(1) + " in " + mm.group(2).split("\n")[0]
                rest = blk.split("\n", 1)
                if len(rest) > 1 and rest[1].startswith("["):
                    blk = rest[1]
                else:
                    continue
            else:
                continue
        pm = PROP_RE.match(blk.split("\n\n")[0])
        if not pm:
            continue
        name, cls, _, line, desc, status = pm.groups()
        raw.append({"name": name, "cls": cls, "line": line, "desc": desc.replace("\n", " "), "status": status, "loc": cur_fn + (":" + line if line else "")})
    for c in raw:
        if c["cls"] == "reachability_check":
            reach[c["desc"].strip()] = c["status"]
    checks = []
    for c in raw:
        if c["cls"] == "reachability_check":
            continue
        km = KANI_ID_RE.match(c["desc"])
        kid = None
        if km:
            kid = km.group(1)
            c["desc"] = c["desc"][km.end():]
        st = c["status"]
        if c["cls"] == "cover":
            st = {"FAILURE": "SATISFIED", "SUCCESS": "UNSATISFIABLE"}.get(st, st)
        elif st == "SUCCESS" and kid and reach.get(kid) == "SUCCESS":
            st = "UNREACHABLE"
        checks.append({"name": c["name"], "cls": c["cls"], "status": st, "desc": c["desc"], "loc": c["loc"]})
    out["checks"] = checks
    if re.search(r"^VERIFICATION (FAILED|SUCCESSFUL)", text, re.M):
        out["verdict"] = "DONE"
    m = re.search(r"Runtime Symex: ([\d.e+-]+)s", text)
    out["symex_s"] = float(m.group(1)) if m else None
    sol = re.findall(r"Runtime decision procedure: ([\d.e+-]+)s", text)
    out["solver_s"] = round(sum(float(x) for x in sol), 2) if sol else None
    out["solver_queries"] = len(sol)
    m = re.search(r"Generated (\d+) VCC\(s\), (\d+) remaining after simplification", text)
    out["vccs"] = [int(m.group(1)), int(m.group(2))] if m else None
    m = re.search(r"(\d+) variables, (\d+) clauses", text)
    out["sat_vars_clauses"] = [int(m.group(1)), int(m.group(2))] if m else None
    return out


def parse_playback(text):
    m = re.search(r"Concrete playback unit test for `[^`]*`:\n```\n(.*?)```", text, re.S)
    if not m:
        return None
    src = m.group(1)
    # Kani copies the failing assertion's text into a `///` comment; a message that spans two
    # lines (rustfmt-split assert!) leaves its second line uncommented and the test does not
    # compile.  Keep the test itself only.
    k = src.find("#[test]")
    return src[k:] if k >= 0 else src


def classify(parsed):
    """-> (status, details); status in pass / fail / unwind / vacuous / inconclusive."""
    checks = parsed["checks"]
    if not checks or parsed["verdict"] is None:
        return "inconclusive", "no verdict in CBMC output (solver died / out of memory / killed)"
    covers = [c for c in checks if c["cls"] == "cover"]
    others = [c for c in checks if c["cls"] != "cover"]
    unwind_fail = [c for c in others if c["status"] == "FAILURE" and
                   (c["cls"] in ("unwind", "recursion") or "unwinding assertion" in c["desc"])]
    env_fail = [c for c in others if c["status"] == "FAILURE" and c not in unwind_fail and
                (c["cls"] == "unsupported_construct" or "undefined function" in c["desc"]
                 or c["cls"] == "sanity_check")]
    fails = [c for c in others if c["status"] == "FAILURE" and c not in unwind_fail and c not in env_fail]
    bad = [c for c in others if c["status"] not in ("SUCCESS", "FAILURE", "UNREACHABLE")]
    if unwind_fail:
        # Kani's rule: with a failed unwinding assertion nothing else is trustworthy
        return "unwind", unwind_fail
    if env_fail:
        return "inconclusive", "reachable unsupported construct / undefined function: " + env_fail[0]["desc"][:200]
    if fails:
        return "fail", fails
    if bad:
        return "inconclusive", "checks with status " + ",".join(sorted(set(c["status"] for c in bad)))
    unsat = [c for c in covers if c["status"] != "SATISFIED"]
    if unsat:
        return "vacuous", unsat
    return "pass", None


try:
    _PEAKS = json.load(open(os.path.join(VERIF, "vlib", "peaks.json")))
except Exception:
    _PEAKS = {}


class Harness:
    def __init__(self, name, unwind, feature="on", timeout=900, mem_gb=12, loops=None,
                 desc="", bounds=None, assumptions=None, expect="pass", finding=None,
                 tier="quick", solver=None, extra_args=None, stub_exact=True, fs=256, bytewise=0, mem_est=None, acct=False):
        self.name = name
        self.unwind = unwind
        self.feature = feature
        self.timeout = timeout
        self.mem_gb = mem_gb
        self.loops = loops or []
        self.desc = desc
        self.bounds = bounds or {}
        self.assumptions = assumptions or []
        self.expect = expect          # "pass" or "fail" (finding witness)
        self.finding = finding
        self.tier = tier
        self.solver = solver
        self.extra_args = extra_args or []
        self.stub_exact = stub_exact
        self.fs = fs                  # CBMC --max-field-sensitivity-array-size
        self.bytewise = bytewise      # >0: link vlib/bytewise_mem.c, memcpy/memmove loop bound
        self.acct = acct              # link vlib/kani_lib_acct.c (allocator accounting model) instead of kani_lib.c
        pk = _PEAKS.get(feature + ":" + name)
        if mem_est is not None:
            self.mem_est = mem_est
        elif pk:
            self.mem_est = max(1.0, 1.4 * pk["rss_gb"] + 0.5)   # measured peak RSS of a decided run
        else:
            self.mem_est = min(mem_gb, 10)                      # never measured: assume heavy

    @property
    def key(self):
        return self.feature + ":" + self.name


def target_dir(feature):
    return os.path.join(TARGET, "kani_" + feature)


def build_lock(feature):
    return _LOCKS.setdefault(feature, threading.Lock())


_LOCKS = {}


def find_goto(feature, harness, newer_than=0.0):
    suf = mangled_suffix(harness)
    pat = os.path.join(target_dir(feature), "kani", "*", "debug", "build", CRATE_NAME[feature],
                       "*", "out", "*" + suf + ".out")
    c = [p for p in glob.glob(pat) if not p.endswith(".symtab.out")]
    c = [p for p in c if os.path.getmtime(p) >= newer_than - 1]
    if not c:
        return None
    return max(c, key=os.path.getmtime)


def derive_unwindset(goto, h):
    out = subprocess.run(["cbmc", "--show-loops", goto], capture_output=True, text=True).stdout
    loops = re.findall(r"^Loop (\S+):\n\s+(.*)$", out, re.M)
    rules = list(h.loops) + NATURAL_LOOPS
    res = []
    applied = {}
    for name, desc in loops:
        for pat, b in rules:
            if re.search(pat, desc) or re.search(pat, name):
                res.append("%s:%d" % (name, b))
                applied[pat] = b
                break
    return res, len(loops), applied


KANI_LIB_C = os.path.expanduser("~/.kani/kani-0.68.0/library/kani/kani_lib.c")
CBMC_FLAGS = ["--no-malloc-may-fail", "--no-undefined-shift-check", "--no-signed-overflow-check",
              "--nan-check", "--no-self-loops-to-assumptions", "--no-pointer-primitive-check",
              "--object-bits", "16", "--slice-formula"]


def _with_loops(h, extra):
    import copy
    h2 = copy.copy(h)
    h2.loops = list(extra) + list(h.loops)
    return h2


def kani_metadata(feature, harness):
    """Newest kani-metadata.json that lists this harness -> (mangled name, symtab goto file, stubs)."""
    pat = os.path.join(target_dir(feature), "kani", "*", "debug", "build", CRATE_NAME[feature], "*", "out",
                       "*.kani-metadata.json")
    best = None
    for f in glob.glob(pat):
        try:
            d = json.load(open(f))
        except Exception:
            continue
        for ph in d.get("proof_harnesses", []):
            if ph.get("pretty_name") == harness and ph.get("goto_file") and os.path.exists(ph["goto_file"]):
                t = os.path.getmtime(ph["goto_file"])
                if best is None or t > best[0]:
                    stubs = ph.get("attributes", {}).get("stubs", [])
                    best = (t, ph["mangled_name"], ph["goto_file"], stubs)
    return best


def kani_base(h, playback=False):
    base = ["cargo", "kani", "-Z", "stubbing", "-Z", "unstable-options"]
    if playback:
        base += ["-Z", "concrete-playback", "--concrete-playback=print"]
    base += ["--features", "m_" + h.name.split("::")[0]]
    base += ["--harness", h.name, "--exact", "--target-dir", target_dir(h.feature)]
    return base


def run_harness(h, logdir, seed=0):
    """Compile one harness from /repo's working tree with kani-compiler, apply kani-driver's
    goto-instrument pipeline, then run CBMC directly (plain-text UI: kani-driver's JSON UI
    makes CBMC build a full trace for every reachability witness, measured 5x slower and
    4x the memory).  Returns a Result."""
    os.makedirs(logdir, exist_ok=True)
    stem = h.key.replace("::", "__").replace(":", "_")
    log = os.path.join(logdir, stem + ".log")
    if os.path.exists(log):
        os.remove(log)
    crate = CRATES[h.feature]
    r = Result(name=h.name, feature=h.feature, log=log, unwind=h.unwind, desc=h.desc,
               bounds=h.bounds, expect=h.expect, finding=h.finding)
    t0 = time.time()
    with build_lock(h.feature):
        rc, to, secs = _run(kani_base(h) + ["--only-codegen"], crate, 1800, log)
    r["build_s"] = round(secs, 1)
    if rc != 0 or to:
        txt = open(log, errors="replace").read()
        r["status"] = "build_failed"
        errs = re.findall(r"^error.*(?:\n .*)*", txt, re.M)
        r["detail"] = ("\n".join(errs))[:3000] or txt[-2000:]
        r["wall_s"] = round(time.time() - t0, 1)
        return r
    md = kani_metadata(h.feature, h.name)
    if not md:
        r.update(status="inconclusive", detail="harness not found in kani metadata", wall_s=round(time.time() - t0, 1))
        return r
    _, mangled, symtab, stubs = md
    r["stubs"] = ["%s -> %s" % (s.get("original"), s.get("replacement")) if isinstance(s, dict) else str(s) for s in stubs]
    work = symtab.replace(".symtab.out", "") + ".cbmc.out"
    libs = [os.path.join(VERIF, "vlib", "kani_lib_acct.c") if h.acct else KANI_LIB_C]
    if h.bytewise:
        libs.append(os.path.join(VERIF, "vlib", "bytewise_mem.c"))
        h = _with_loops(h, [(r"^memcpy\.|^memmove\.", h.bytewise + 1)])
    steps = [
        ["goto-cc", symtab] + libs + ["-o", work],
        ["goto-cc", work, "--function", mangled, "-o", work],
        ["goto-instrument", "--add-library", "--no-malloc-may-fail", work, work],
        ["goto-instrument", "--generate-function-body-options", "assert-false-assume-false",
         "--generate-function-body", ".*", "--drop-unused-functions", work, work],
        ["goto-instrument", "--ensure-one-backedge-per-target", work, work],
    ]
    for st in steps:
        rc, to, secs = _run(st, crate, 600, log)
        if rc != 0:
            r.update(status="inconclusive", detail="goto pipeline step failed: " + " ".join(st[:2]),
                     wall_s=round(time.time() - t0, 1))
            return r
    uset, nloops, applied = derive_unwindset(work, h)
    r["loops_total"] = nloops
    r["unwindset_rules"] = applied
    cmd = ["cbmc"] + CBMC_FLAGS + ["--sat-solver", h.solver or "cadical", "--unwind", str(h.unwind)]
    if uset:
        cmd += ["--unwindset", ",".join(uset)]
    if h.fs:
        cmd += ["--max-field-sensitivity-array-size", str(h.fs)]
    cmd += h.extra_args + [work, "--verbosity", "8"]
    out = os.path.join(logdir, stem + ".cbmc.txt")
    rc, killed, secs, peak = _run_watched(cmd, crate, h.timeout, out, h.mem_gb, truncate=True)
    r["cbmc_out"] = out
    r["verify_s"] = round(secs, 1)
    r["peak_rss_gb"] = round(peak, 2)
    text = open(out, errors="replace").read()
    parsed = parse_cbmc_text(text)
    r.update({k: parsed[k] for k in ("verdict", "symex_s", "solver_s", "solver_queries", "vccs", "sat_vars_clauses")})
    r["checks_total"] = len(parsed["checks"])
    r["checks_success"] = sum(1 for c in parsed["checks"] if c["status"] in ("SUCCESS", "SATISFIED", "UNREACHABLE"))
    r["covers"] = [{"desc": c["desc"], "status": c["status"], "loc": c["loc"]}
                   for c in parsed["checks"] if c["cls"] == "cover"]
    r["functions_encoded"] = sorted(set(
        re.sub(r"\.[A-Za-z_\-]+\.\d+$", "", c["name"]) for c in parsed["checks"]))[:600]
    if killed:
        r["status"] = "inconclusive"
        r["detail"] = "killed: " + killed + (" (%.1f GB)" % peak if killed == "memory" else " after %ds" % h.timeout)
    else:
        st, det = classify(parsed)
        r["status"] = st
        if st in ("fail", "unwind", "vacuous"):
            r["failed_checks"] = [{"name": c["name"], "desc": c["desc"], "loc": c["loc"]} for c in det][:20]
        elif det:
            r["detail"] = det
    r["wall_s"] = round(time.time() - t0, 1)
    return r


def acct_kani_home():
    """Shadow Kani installation whose library/kani/kani_lib.c is the allocator-accounting
    variant, so that kani-driver's own CBMC run (used only to obtain a concrete playback test)
    sees the same allocator model as the deciding run.  Everything else is a symlink to the
    installed Kani; kani-driver itself is copied because it locates its library directory
    from its own (resolved) path."""
    src = os.path.expanduser("~/.kani/kani-0.68.0")
    home = os.path.join(TARGET, "kani_home_acct")
    dst = os.path.join(home, "kani-0.68.0")
    marker = os.path.join(dst, ".ready")
    if os.path.exists(marker):
        return home
    if os.path.exists(home):
        shutil.rmtree(home)
    os.makedirs(os.path.join(dst, "bin"))
    os.makedirs(os.path.join(dst, "library", "kani"))
    for e in os.listdir(src):
        if e not in ("bin", "library"):
            os.symlink(os.path.join(src, e), os.path.join(dst, e))
    for e in os.listdir(os.path.join(src, "bin")):
        if e == "kani-driver":
            shutil.copy2(os.path.join(src, "bin", e), os.path.join(dst, "bin", e))
        else:
            os.symlink(os.path.join(src, "bin", e), os.path.join(dst, "bin", e))
    for e in os.listdir(os.path.join(src, "library")):
        if e != "kani":
            os.symlink(os.path.join(src, "library", e), os.path.join(dst, "library", e))
    for e in os.listdir(os.path.join(src, "library", "kani")):
        if e != "kani_lib.c":
            os.symlink(os.path.join(src, "library", "kani", e), os.path.join(dst, "library", "kani", e))
    shutil.copy(os.path.join(VERIF, "vlib", "kani_lib_acct.c"), os.path.join(dst, "library", "kani", "kani_lib.c"))
    open(marker, "w").write("ok")
    return home


def kani_playback_test(h, logdir, prop=None):
    """Ask Kani itself (through kani-driver, with traces) for a concrete playback test of a
    failing harness.  Only used after CBMC reported a failure."""
    stem = h.key.replace("::", "__").replace(":", "_")
    log = os.path.join(logdir, stem + ".pb.log")
    if os.path.exists(log):
        os.remove(log)
    crate = CRATES[h.feature]
    with build_lock(h.feature):
        rc, to, secs = _run(kani_base(h, True) + ["--only-codegen"], crate, 1800, log)
    md_dir = target_dir(h.feature)
    # unwindset names are stable across the playback build (same mangled loop ids)
    goto = find_goto(h.feature, h.name)
    uset = []
    if goto:
        uset, _, _ = derive_unwindset(goto, h)
    cmd = kani_base(h, True)
    if h.solver:
        cmd += ["--solver", h.solver]
    cmd += ["--cbmc-args", "--unwind", str(h.unwind)]
    if h.fs:
        cmd += ["--max-field-sensitivity-array-size", str(h.fs)]
    if uset:
        cmd += ["--unwindset", ",".join(uset)]
    if prop:
        # restrict CBMC to the failing property: one trace instead of one per reachability witness
        cmd += ["--property", prop]
    env = None
    if h.acct:
        env = dict(ENV, KANI_HOME=acct_kani_home())
    rc, killed, secs, peak = _run_watched(cmd, crate, max(h.timeout * 4, 1200), log, max(h.mem_gb * 4, 24), env=env)
    return parse_playback(open(log, errors="replace").read()), log


def native_playback(h, test_src, workdir):
    """Stage-1 replay: run Kani's concrete playback test natively (stubs are inert, so the
    real callees run; containers are the cfg(kani) shim).  Returns (reproduced, log, testname)."""
    m = re.search(r"fn (kani_concrete_playback_\w+)\(", test_src)
    if not m:
        return None, "no test function in playback output", None
    tname = m.group(1)
    crate_src = CRATES[h.feature]
    dst = os.path.join(workdir, "crate")
    if os.path.exists(dst):
        shutil.rmtree(dst)
    shutil.copytree(crate_src, dst, ignore=shutil.ignore_patterns("target"))
    if h.feature == "off":
        # kani_off shares kani/src through a relative [lib] path: materialise it
        shutil.copytree(os.path.join(CRATES["on"], "src"), os.path.join(dst, "src"))
        ct = open(os.path.join(dst, "Cargo.toml")).read().replace('path = "../kani/src/lib.rs"', 'path = "src/lib.rs"')
        open(os.path.join(dst, "Cargo.toml"), "w").write(ct)
    mod = h.name.split("::")[0]
    f = os.path.join(dst, "src", mod + ".rs")
    with open(f, "a") as fh:
        fh.write("\n" + test_src + "\n")
    env = dict(ENV)
    env["CARGO_TARGET_DIR"] = os.path.join(TARGET, "playback_" + h.feature)
    log = os.path.join(workdir, "playback.log")
    cmd = ["cargo", "kani", "playback", "-Z", "concrete-playback", "--", tname, "--exact", "--nocapture"]
    # test path inside the crate is <mod>::<tname>
    cmd = ["cargo", "kani", "playback", "-Z", "concrete-playback", "--features", "m_" + mod, "--", mod + "::" + tname, "--exact", "--nocapture"]
    rc, to, secs = _run(cmd, dst, 900, log, env=env)
    txt = open(log, errors="replace").read()
    ran = re.search(r"running 1 test", txt) is not None
    if not ran:
        return None, txt[-3000:], tname
    failed = re.search(r"test result: FAILED", txt) is not None or "panicked at" in txt
    return failed, txt[-3000:], tname


class Pool:
    """Memory-aware parallel scheduler: admit a harness while the sum of expected peak RSS
    of running harnesses stays under the cap."""

    def __init__(self, cap_gb=44, max_par=10):
        self.cap = cap_gb
        self.max_par = max_par

    def run(self, harnesses, fn):
        pending = sorted(harnesses, key=lambda h: -h.timeout)
        results = {}
        running = {}
        lock = threading.Lock()
        cv = threading.Condition(lock)

        def work(h):
            try:
                res = fn(h)
            except Exception as e:  # noqa
                res = Result(name=h.name, feature=h.feature, status="inconclusive", detail="runner exception: %r" % e)
            with cv:
                results[h.key] = res
                del running[h.key]
                cv.notify_all()

        with cv:
            while pending or running:
                started = False
                used = sum(x.mem_est for x in running.values())
                for h in list(pending):
                    if len(running) < self.max_par and (used + h.mem_est <= self.cap or not running):
                        pending.remove(h)
                        running[h.key] = h
                        used += h.mem_est
                        threading.Thread(target=work, args=(h,), daemon=True).start()
                        started = True
                if not started or not pending:
                    cv.wait(timeout=5)
        return results
