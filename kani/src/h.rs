//! H: multi-step *histories* through the public API only (template-level; histories that
//! reach the data decoders do not finish in CBMC - the full catalogue that was tried is kept
//! in /verif/design_probes/h_histories/h_full.rs) (`NetflowParser::parse_bytes`,
//! `to_be_bytes`, the public cache fields) with the real V9 / IPFIX decoders.
//!
//! Every structure-selecting byte of a history (versions, counts, set ids and lengths, template
//! ids, field specifiers, variable-length prefixes) is *written*; header words, data bytes and
//! padding are symbolic, so one harness decides its history for every payload.  The expected
//! result of each history is spelled out from RFC 3954 / RFC 7011 by hand (offsets are
//! concrete), not computed by the library.
//!
//! Because only the public API is used, these harnesses keep compiling when internal
//! functions change their signatures.
use crate::common::*;
use crate::km::unsigned_kernel_model;
use netflow_parser::variable_versions::data_number::{DataNumber, FieldValue};
use netflow_parser::variable_versions::ipfix_lookup::IPFixField;
use netflow_parser::variable_versions::v9_lookup::V9Field;
use netflow_parser::variable_versions::{ipfix, v9};
use netflow_parser::{NetflowPacket, NetflowParser};

/// Buffer builder: `o` stays concrete, so every offset below is a constant for symex.
pub struct B<'a, const N: usize> {
    pub b: &'a mut [u8; N],
    pub o: usize,
}
impl<'a, const N: usize> B<'a, N> {
    /// The array lives in the harness frame and is never copied: a copy (memcpy) would hide
    /// the written structure bytes from symex's constant propagation.
    pub fn on(b: &'a mut [u8; N]) -> Self {
        B { b, o: 0 }
    }
    pub fn w16(&mut self, v: u16) -> &mut Self {
        put16(&mut self.b[..], self.o, v);
        self.o += 2;
        self
    }
    pub fn w8(&mut self, v: u8) -> &mut Self {
        self.b[self.o] = v;
        self.o += 1;
        self
    }
    /// leave `n` bytes symbolic; returns their offset
    pub fn sym(&mut self, n: usize) -> usize {
        let s = self.o;
        self.o += n;
        s
    }
    pub fn ipfix_hdr(&mut self, len: u16) -> usize {
        let s = self.o;
        self.w16(10).w16(len);
        self.sym(12);
        s
    }
    pub fn v9_hdr(&mut self, count: u16) -> usize {
        let s = self.o;
        self.w16(9).w16(count);
        self.sym(16);
        s
    }
    pub fn set(&mut self, id: u16, len: u16) -> &mut Self {
        self.w16(id).w16(len)
    }
    /// plain field specifier
    pub fn spec(&mut self, ty: u16, len: u16) -> &mut Self {
        self.w16(ty).w16(len)
    }
    /// enterprise-specific field specifier; the 4-byte enterprise number stays symbolic
    pub fn espec(&mut self, ty: u16, len: u16) -> usize {
        self.w16(0x8000 | ty).w16(len);
        self.sym(4)
    }
    pub fn done(&self) {
        assert!(self.o == N);
    }
}

fn u16v(b: &[u8], o: usize) -> FieldValue {
    FieldValue::DataNumber(DataNumber::U16(be16(b, o)))
}
fn u32v(b: &[u8], o: usize) -> FieldValue {
    FieldValue::DataNumber(DataNumber::U32(be32(b, o)))
}
fn u8v(b: &[u8], o: usize) -> FieldValue {
    FieldValue::DataNumber(DataNumber::U8(b[o]))
}

fn as_ipfix(p: &NetflowPacket) -> &ipfix::IPFix {
    match p {
        NetflowPacket::IPFix(m) => m,
        _ => panic!("not IPFIX"),
    }
}
fn as_v9(p: &NetflowPacket) -> &v9::V9 {
    match p {
        NetflowPacket::V9(m) => m,
        _ => panic!("not V9"),
    }
}
fn ipfix_data(fs: &ipfix::FlowSet) -> &ipfix::Data {
    match &fs.body {
        ipfix::FlowSetBody::Data(d) => d,
        _ => panic!("not a data set"),
    }
}
fn ipfix_odata(fs: &ipfix::FlowSet) -> &ipfix::OptionsData {
    match &fs.body {
        ipfix::FlowSetBody::OptionsData(d) => d,
        _ => panic!("not an options data set"),
    }
}
fn v9_data(fs: &v9::FlowSet) -> &v9::Data {
    match &fs.body {
        v9::FlowSetBody::Data(d) => d,
        _ => panic!("not a data flowset"),
    }
}
/// flattened IPFIX result: entry `k` is a single-entry map {index -> (type, value)}
macro_rules! ipfix_field_is {
    ($fields:expr, $k:expr, $idx:expr, $ty:expr, $v:expr) => {{
        assert!($fields[$k].len() == 1);
        let (t, x) = $fields[$k].get(&$idx).unwrap();
        assert!(*t == $ty);
        assert!(x == $v);
    }};
}
fn bytes_eq(v: &[u8], b: &[u8], o: usize, n: usize) {
    assert!(v.len() == n);
    let mut i = 0;
    while i < n {
        assert!(v[i] == b[o + i]);
        i += 1;
    }
}

/// I6 (C10/C05): the same template id announced twice with identical fields but different
/// trailing padding: each message is reported as sent and re-exports to exactly its own bytes.
#[kani::proof]
#[kani::stub(core::fmt::write, no_fmt)]
fn h_ipfix_template_twice_padding_reexport() {
    const M1: usize = 16 + 12;
    const M2: usize = 16 + 12 + 3;
    let mut b: [u8; { M1 + M2 }] = kani::any();
    let mut x = B::on(&mut b);
    x.ipfix_hdr(M1 as u16);
    x.set(2, 12).w16(256);
    x.w16(1).spec(1, 4);
    x.ipfix_hdr(M2 as u16);
    x.set(2, 15).w16(256);
    x.w16(1).spec(1, 4);
    let pad = x.sym(3);
    x.done();
    drop(x);
    let mut p = NetflowParser::default();
    let r = p.parse_bytes(&b);
    assert!(r.len() == 2);
    let m1 = as_ipfix(&r[0]);
    let m2 = as_ipfix(&r[1]);
    match (&m1.flowsets[0].body, &m2.flowsets[0].body) {
        (ipfix::FlowSetBody::Template(t1), ipfix::FlowSetBody::Template(t2)) => {
            assert!(t1.padding.len() == 0);
            bytes_eq(&t2.padding, &b, pad, 3);
        }
        _ => assert!(false),
    }
    let o1 = m1.to_be_bytes().unwrap();
    let o2 = m2.to_be_bytes().unwrap();
    bytes_eq(&o1, &b, 0, M1);
    bytes_eq(&o2, &b, M1, M2);
    core::mem::forget(o1);
    core::mem::forget(o2);
    core::mem::forget(r);
    core::mem::forget(p);
}

/// I7 (C11/C05): the last set of a message announces a length that reaches beyond the message:
/// it must not be completed with bytes of the next message in the buffer.  Chained and
/// per-call delivery agree (nothing is learned from the overlong set either way).
#[kani::proof]
#[kani::stub(core::fmt::write, no_fmt)]
fn h_ipfix_set_beyond_message() {
    const M1: usize = 16 + 12;
    const M2: usize = 16 + 12;
    let mut b: [u8; { M1 + M2 }] = kani::any();
    let mut x = B::on(&mut b);
    x.ipfix_hdr(M1 as u16);
    x.set(2, 20).w16(256).w16(3).spec(1, 4); // announces 20 bytes, 12 left in the message
    x.ipfix_hdr(M2 as u16);
    x.set(2, 12).w16(257).w16(1).spec(2, 4);
    x.done();
    drop(x);
    let mut p = NetflowParser::default();
    let r = p.parse_bytes(&b);
    assert!(r.len() == 2);
    assert!(as_ipfix(&r[0]).flowsets.len() == 0);
    assert!(as_ipfix(&r[1]).flowsets.len() == 1);
    assert!(p.ipfix_parser.templates.len() == 1 && p.ipfix_parser.templates.contains_key(&257));
    let mut q = NetflowParser::default();
    let s1 = q.parse_bytes(&b[..M1]);
    let s2 = q.parse_bytes(&b[M1..]);
    assert!(s1.len() == 1 && s2.len() == 1);
    assert!(as_ipfix(&s1[0]).flowsets.len() == 0);
    assert!(q.ipfix_parser.templates.len() == 1 && q.ipfix_parser.templates.contains_key(&257));
    core::mem::forget(r);
    core::mem::forget(s1);
    core::mem::forget(s2);
    core::mem::forget(p);
    core::mem::forget(q);
}

