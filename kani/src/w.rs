//! W layer: `NetflowParser::parse_bytes` / `parse_packet_by_version` (version dispatch,
//! allowed-version filter, chaining by recursion, error wrapping, `remaining` bytes) with
//! the four per-version entry points replaced by models that are *exact on the harness
//! domain*: header-only packets (V5/V7/V9 with count == 0, IPFIX with length == 16).  The
//! models `assume` that domain, so the solver only explores buffers inside it, and the
//! concrete playback (which runs the real decoders) behaves identically.
use crate::common::*;
use netflow_parser::static_versions::{v5, v7};
use netflow_parser::variable_versions::{ipfix, v9};
use netflow_parser::{NetflowPacket, NetflowParseError, NetflowParser, ParsedNetflow, PartialParse};

pub fn partial(version: u16) -> NetflowParseError {
    // PartialParse.remaining / .error are not observed by any W harness
    NetflowParseError::Partial(PartialParse { version, remaining: Vec::new(), error: String::new() })
}

pub fn rest(packet: &[u8], k: usize) -> Vec<u8> {
    packet[k..].to_vec()
}

pub fn v5_model(packet: &[u8]) -> Result<ParsedNetflow, NetflowParseError> {
    if packet.len() >= 2 {
        kani::assume(be16(packet, 0) == 0);
    }
    if packet.len() < 22 {
        return Err(partial(5));
    }
    let header = v5::Header {
        version: 5,
        count: 0,
        sys_up_time: be32(packet, 2),
        unix_secs: be32(packet, 6),
        unix_nsecs: be32(packet, 10),
        flow_sequence: be32(packet, 14),
        engine_type: packet[18],
        engine_id: packet[19],
        sampling_interval: be16(packet, 20),
    };
    Ok(ParsedNetflow { remaining: rest(packet, 22), result: NetflowPacket::V5(v5::V5 { header, flowsets: Vec::new() }) })
}

pub fn v7_model(packet: &[u8]) -> Result<ParsedNetflow, NetflowParseError> {
    if packet.len() >= 2 {
        kani::assume(be16(packet, 0) == 0);
    }
    if packet.len() < 22 {
        return Err(partial(7));
    }
    let header = v7::Header {
        version: 7,
        count: 0,
        sys_up_time: be32(packet, 2),
        unix_secs: be32(packet, 6),
        unix_nsecs: be32(packet, 10),
        flow_sequence: be32(packet, 14),
        reserved: be32(packet, 18),
    };
    Ok(ParsedNetflow { remaining: rest(packet, 22), result: NetflowPacket::V7(v7::V7 { header, flowsets: Vec::new() }) })
}

pub fn v9_model(_s: &mut v9::V9Parser, packet: &[u8]) -> Result<ParsedNetflow, NetflowParseError> {
    if packet.len() >= 2 {
        kani::assume(be16(packet, 0) == 0);
    }
    if packet.len() < 18 {
        return Err(partial(9));
    }
    let header = v9::Header {
        version: 9,
        count: 0,
        sys_up_time: be32(packet, 2),
        unix_secs: be32(packet, 6),
        sequence_number: be32(packet, 10),
        source_id: be32(packet, 14),
    };
    Ok(ParsedNetflow { remaining: rest(packet, 18), result: NetflowPacket::V9(v9::V9 { header, flowsets: Vec::new() }) })
}

pub fn ipfix_model(_s: &mut ipfix::IPFixParser, packet: &[u8]) -> Result<ParsedNetflow, NetflowParseError> {
    if packet.len() >= 2 {
        kani::assume(be16(packet, 0) == 16);
    }
    if packet.len() < 14 {
        return Err(partial(10));
    }
    let header = ipfix::Header {
        version: 10,
        length: 16,
        export_time: be32(packet, 2),
        sequence_number: be32(packet, 6),
        observation_domain_id: be32(packet, 10),
    };
    Ok(ParsedNetflow { remaining: rest(packet, 14), result: NetflowPacket::IPFix(ipfix::IPFix { header, flowsets: Vec::new() }) })
}

/// wire length of a header-only packet of a known version
pub fn wire(v: u16) -> usize {
    match v {
        5 | 7 => 24,
        9 => 20,
        _ => 16,
    }
}
pub fn known(v: u16) -> bool {
    v == 5 || v == 7 || v == 9 || v == 10
}

/// Reference decomposition (C02/C12): walk the buffer; at each position: empty => stop;
/// < 2 bytes => Error; version not allowed => stop silently; allowed but unknown => Error;
/// known and complete => packet, advance; known and short => Error.
/// Returns (#packets, offsets, has_error, error_offset).
pub fn model_walk(b: &[u8], n: usize, allowed: &[u16; 3]) -> (usize, [usize; 3], bool, usize) {
    let mut offs = [0usize; 3];
    let mut k = 0usize;
    let mut pos = 0usize;
    let mut i = 0;
    while i < 4 {
        if pos >= n {
            return (k, offs, false, pos);
        }
        if n - pos < 2 {
            return (k, offs, true, pos);
        }
        let v = be16(b, pos);
        if !(v == allowed[0] || v == allowed[1] || v == allowed[2]) {
            return (k, offs, false, pos);
        }
        if !known(v) || n - pos < wire(v) || k == 3 {
            return (k, offs, true, pos);
        }
        offs[k] = pos;
        k += 1;
        pos += wire(v);
        i += 1;
    }
    (k, offs, false, pos)
}

pub fn version_of(p: &NetflowPacket) -> u16 {
    match p {
        NetflowPacket::V5(_) => 5,
        NetflowPacket::V7(_) => 7,
        NetflowPacket::V9(_) => 9,
        NetflowPacket::IPFix(_) => 10,
        NetflowPacket::Error(_) => 0,
    }
}

/// a per-version header word that must be carried through (detects reordering / mixing)
pub fn word_of(p: &NetflowPacket) -> u32 {
    match p {
        NetflowPacket::V5(x) => x.header.sys_up_time,
        NetflowPacket::V7(x) => x.header.sys_up_time,
        NetflowPacket::V9(x) => x.header.sys_up_time,
        NetflowPacket::IPFix(x) => x.header.export_time,
        NetflowPacket::Error(_) => 0,
    }
}

/// W shape harness, no stubs: the real decoders run on header-only packets whose version
/// and count/length bytes are *written* (so dispatch folds per level); header words, the
/// allowed set and the tail bytes are symbolic.  `$vers` lists the version of each packet
/// (0 = none), `$tail` = number of extra bytes after the last listed packet, `$cut` =
/// number of bytes removed from the end of the last listed packet (truncation).
macro_rules! w_shape {
    ($name:ident, $vers:expr, $tail:expr, $cut:expr) => {
        #[kani::proof]
        #[kani::stub(core::fmt::write, no_fmt)]
        fn $name() {
            w_shape_body!($vers, $tail, $cut);
        }
    };
}
/// Same shapes with the four per-version entry points replaced by the exact header-only
/// models above: from the second packet on the input is a heap copy whose bytes CBMC does
/// not constant-fold, so with the real decoders every level explores all four of them.
macro_rules! w_shape_stubbed {
    ($name:ident, $vers:expr, $tail:expr, $cut:expr) => {
        #[kani::proof]
        #[kani::stub(core::fmt::write, no_fmt)]
        #[kani::stub(netflow_parser::static_versions::v5::V5Parser::parse, v5_model)]
        #[kani::stub(netflow_parser::static_versions::v7::V7Parser::parse, v7_model)]
        #[kani::stub(netflow_parser::variable_versions::v9::V9Parser::parse, v9_model)]
        #[kani::stub(netflow_parser::variable_versions::ipfix::IPFixParser::parse, ipfix_model)]
        fn $name() {
            w_shape_body!($vers, $tail, $cut);
        }
    };
}
macro_rules! w_shape_body {
    ($vers:expr, $tail:expr, $cut:expr) => {
        {
            const VERS: [u16; 3] = $vers;
            const TAIL: usize = $tail;
            const CUT: usize = $cut;
            const fn wl(v: u16) -> usize {
                match v {
                    0 => 0,
                    5 | 7 => 24,
                    9 => 20,
                    10 => 16,
                    _ => 4, // unknown version: 4 arbitrary bytes
                }
            }
            const N: usize = wl(VERS[0]) + wl(VERS[1]) + wl(VERS[2]) + TAIL - CUT;
            let mut buf: [u8; N] = kani::any();
            let mut pos = 0;
            let mut k = 0;
            while k < 3 {
                let v = VERS[k];
                if v != 0 && pos + 4 <= N {
                    put16(&mut buf, pos, v);
                    if v == 10 {
                        put16(&mut buf, pos + 2, 16);
                    } else if v == 5 || v == 7 || v == 9 {
                        put16(&mut buf, pos + 2, 0);
                    }
                }
                pos += wl(v);
                k += 1;
            }
            let allowed: [u16; 3] = kani::any();
            let mut p = NetflowParser::default();
            p.allowed_versions = allowed.into();
            let r = p.parse_bytes(&buf);
            let n = N;
            let (k, offs, has_err, epos) = model_walk(&buf, n, &allowed);
            assert!(r.len() == k + has_err as usize);
            let mut i = 0;
            while i < 3 {
                if i < k {
                    let v = be16(&buf, offs[i]);
                    assert!(version_of(&r[i]) == v);
                    assert!(word_of(&r[i]) == be32(&buf, offs[i] + 4));
                }
                i += 1;
            }
            if has_err {
                match &r[k] {
                    NetflowPacket::Error(e) => {
                        // remaining = exact unconsumed suffix, starting at the version field
                        assert!(e.remaining.len() == n - epos);
                        let j: usize = kani::any();
                        if j < n - epos {
                            assert!(e.remaining[j] == buf[epos + j]);
                        }
                        if n - epos >= 2 {
                            let v = be16(&buf, epos);
                            match &e.error {
                                NetflowParseError::UnknownVersion(_) => assert!(!known(v)),
                                NetflowParseError::Partial(pp) => assert!(known(v) && pp.version == v),
                                _ => assert!(false),
                            }
                        } else {
                            match &e.error {
                                NetflowParseError::Incomplete(_) => {}
                                _ => assert!(false),
                            }
                        }
                    }
                    _ => assert!(false),
                }
            }
            // header-only packets, disallowed and unknown versions never touch the caches
            assert!(p.v9_parser.templates.len() == 0 && p.v9_parser.options_templates.len() == 0);
            assert!(p.ipfix_parser.templates.len() == 0 && p.ipfix_parser.options_templates.len() == 0);
            kani::cover!(r.len() >= 1);
            kani::cover!(r.len() == 0);
            core::mem::forget(r);
            core::mem::forget(p);
        }
    };
}
// real decoders, one packet + tail
w_shape!(w_real_5_stray, [5, 0, 0], 1, 0);
w_shape!(w_real_10, [10, 0, 0], 0, 0);
w_shape!(w_real_9cut, [9, 0, 0], 0, 5);
w_shape!(w_real_7_unknown, [7, 0x0101, 0], 0, 0);
w_shape!(w_real_5_9, [5, 9, 0], 0, 0);
w_shape!(w_real_10_7_stray, [10, 7, 0], 1, 0);
// modelled decoders, chains
w_shape_stubbed!(w_shape_5_9, [5, 9, 0], 0, 0);
w_shape_stubbed!(w_shape_10_7_stray, [10, 7, 0], 1, 0);
w_shape_stubbed!(w_shape_9_unknown, [9, 6, 0], 3, 0);
w_shape_stubbed!(w_shape_7_5cut, [7, 5, 0], 0, 14);
w_shape_stubbed!(w_shape_10_10_10, [10, 10, 10], 0, 0);
w_shape_stubbed!(w_shape_5_10cut, [5, 10, 0], 0, 1);
w_shape_stubbed!(w_shape_9_9cut, [9, 9, 0], 0, 17);
w_shape_stubbed!(w_shape_unknown_first, [0xFFFF, 5, 0], 0, 0);

/// C02: an empty buffer yields an empty list, whatever the allowed set.
#[kani::proof]
#[kani::stub(core::fmt::write, no_fmt)]
fn w_empty() {
    let allowed: [u16; 3] = kani::any();
    let mut p = NetflowParser::default();
    p.allowed_versions = allowed.into();
    let r = p.parse_bytes(&[]);
    assert!(r.is_empty());
    core::mem::forget(r);
    core::mem::forget(p);
}

// ---------------------------------------------------------------------------------------
// Per-version entry points (the functions the chain harnesses model): real code.
// Decides what the W models assume: on success `remaining` is exactly the bytes after the
// packet's header-implied end, on failure the error is Partial with the right version.

fn rem_is_suffix(rem: &Vec<u8>, b: &[u8], from: usize) {
    assert!(rem.len() == b.len() - from);
    let j: usize = kani::any();
    if j < rem.len() {
        assert!(rem[j] == b[from + j]);
    }
}

/// IPFixParser::parse on a message with no decodable set, message length written (one
/// harness per length), 6 trailing bytes.  remaining must start right after
/// max(length,16) (C02, C11: no skipping, no alignment), error iff the window exceeds the
/// buffer (C14).
macro_rules! wr_ipfix_entry {
    ($name:ident, $length:expr) => {
        #[kani::proof]
        #[kani::stub(core::fmt::write, no_fmt)]
        fn $name() {
            const N: usize = 14 + 6 + 6;
            let mut b: [u8; N] = kani::any();
            let length: u16 = $length;
            put16(&mut b, 0, length);
            // a set inside the window is a data set for an id nobody defined => not decoded
            b[14] = 1;
            b[15] = 44;
            let mut p = ipfix::IPFixParser::default();
            let r = p.parse(&b);
            let win = if length < 16 { 0 } else { (length - 16) as usize };
            match &r {
                Ok(pn) => {
                    assert!(14 + win <= N);
                    rem_is_suffix(&pn.remaining, &b, 14 + win);
                    match &pn.result {
                        NetflowPacket::IPFix(m) => assert!(m.header.length == length && m.flowsets.len() == 0),
                        _ => assert!(false),
                    }
                }
                Err(e) => {
                    assert!(14 + win > N);
                    match e {
                        NetflowParseError::Partial(pp) => assert!(pp.version == 10),
                        _ => assert!(false),
                    }
                }
            }
            assert!(p.templates.len() == 0 && p.options_templates.len() == 0);
            core::mem::forget(r);
            core::mem::forget(p);
        }
    };
}
wr_ipfix_entry!(wr_ipfix_entry_16, 16);
wr_ipfix_entry!(wr_ipfix_entry_17, 17);
wr_ipfix_entry!(wr_ipfix_entry_22, 22);
wr_ipfix_entry!(wr_ipfix_entry_3, 3);
wr_ipfix_entry!(wr_ipfix_entry_29, 29);

/// V9Parser::parse on a packet whose count (written 0, 1 or 2) exceeds the flowsets present:
/// header only, then 0..=3 stray bytes, then nothing.  Stray bytes are not a flowset: the
/// packet is an error (never silently absorbed) unless nothing follows the header.
macro_rules! wr_v9_entry {
    ($name:ident, $count:expr, $stray:expr) => {
        #[kani::proof]
        #[kani::stub(core::fmt::write, no_fmt)]
        fn $name() {
            const N: usize = 18 + $stray;
            let mut b: [u8; N] = kani::any();
            put16(&mut b, 0, $count);
            let mut p = v9::V9Parser::default();
            let r = p.parse(&b);
            match &r {
                Ok(pn) => {
                    // C02: what is not consumed is handed back
                    assert!($count == 0 || $stray == 0);
                    rem_is_suffix(&pn.remaining, &b, 18);
                    match &pn.result {
                        NetflowPacket::V9(m) => assert!(m.flowsets.len() == 0 && m.header.sys_up_time == be32(&b, 2)),
                        _ => assert!(false),
                    }
                }
                Err(e) => {
                    assert!($count > 0 && $stray > 0);
                    match e {
                        NetflowParseError::Partial(pp) => assert!(pp.version == 9),
                        _ => assert!(false),
                    }
                }
            }
            core::mem::forget(r);
            core::mem::forget(p);
        }
    };
}
wr_v9_entry!(wr_v9_entry_c0_s3, 0, 3);
wr_v9_entry!(wr_v9_entry_c2_s0, 2, 0);
wr_v9_entry!(wr_v9_entry_c2_s2, 2, 2);
wr_v9_entry!(wr_v9_entry_c1_s3, 1, 3);

/// V5Parser::parse / V7Parser::parse: count written 0 or 1, 3 trailing bytes.
macro_rules! wr_fixed_entry {
    ($name:ident, $parser:path, $variant:ident, $ver:expr, $rec:expr, $count:expr, $cut:expr) => {
        #[kani::proof]
        #[kani::stub(core::fmt::write, no_fmt)]
        fn $name() {
            const N: usize = 22 + $rec * $count + 3 - $cut;
            let mut b: [u8; N] = kani::any();
            put16(&mut b, 0, $count);
            let r = <$parser>::parse(&b);
            match &r {
                Ok(pn) => {
                    assert!($cut <= 3);
                    rem_is_suffix(&pn.remaining, &b, 22 + $rec * $count);
                    match &pn.result {
                        NetflowPacket::$variant(m) => assert!(m.flowsets.len() == $count && m.header.sys_up_time == be32(&b, 2)),
                        _ => assert!(false),
                    }
                }
                Err(e) => {
                    assert!($cut > 3);
                    match e {
                        NetflowParseError::Partial(pp) => assert!(pp.version == $ver),
                        _ => assert!(false),
                    }
                }
            }
            core::mem::forget(r);
        }
    };
}
wr_fixed_entry!(wr_v5_entry_1, v5::V5Parser, V5, 5, 48, 1, 0);
wr_fixed_entry!(wr_v5_entry_1_cut, v5::V5Parser, V5, 5, 48, 1, 4);
wr_fixed_entry!(wr_v7_entry_1, v7::V7Parser, V7, 7, 52, 1, 0);
wr_fixed_entry!(wr_v7_entry_0, v7::V7Parser, V7, 7, 52, 0, 0);

/// C12 across calls: `allowed_versions` is a public field; what it holds *at the time of the
/// call* decides.  A header-only packet of version v is accepted, v is then removed from
/// the set (replaced by an arbitrary other number), and the same packet is offered again:
/// nothing may be reported and the caches stay untouched.
macro_rules! w_allowed_narrowed {
    ($name:ident, $v:expr) => {
        #[kani::proof]
        #[kani::stub(core::fmt::write, no_fmt)]
        #[kani::stub(netflow_parser::static_versions::v5::V5Parser::parse, v5_model)]
        #[kani::stub(netflow_parser::static_versions::v7::V7Parser::parse, v7_model)]
        #[kani::stub(netflow_parser::variable_versions::v9::V9Parser::parse, v9_model)]
        #[kani::stub(netflow_parser::variable_versions::ipfix::IPFixParser::parse, ipfix_model)]
        fn $name() {
            const V: u16 = $v;
            const N: usize = match V {
                5 | 7 => 24,
                9 => 20,
                _ => 16,
            };
            let mut buf: [u8; N] = kani::any();
            put16(&mut buf, 0, V);
            put16(&mut buf, 2, if V == 10 { 16 } else { 0 });
            let other: u16 = kani::any();
            kani::assume(other != V);
            let mut p = NetflowParser::default();
            let r1 = p.parse_bytes(&buf);
            assert!(r1.len() == 1);
            core::mem::forget(r1);
            // narrow the public allow-list between two calls
            p.allowed_versions.remove(&V);
            p.allowed_versions.insert(other);
            let r2 = p.parse_bytes(&buf);
            assert!(r2.len() == 0);
            core::mem::forget(r2);
            core::mem::forget(p);
        }
    };
}
w_allowed_narrowed!(w_allowed_narrowed_5, 5);
w_allowed_narrowed!(w_allowed_narrowed_9, 9);
w_allowed_narrowed!(w_allowed_narrowed_10, 10);

/// C12 with a FOUR-member allow-list (the default list also has four members, so a list of
/// that size which is not {5,7,9,10} is the interesting neighbour): a header-only packet of
/// version v is reported iff v is one of the four symbolic numbers, and nothing else is.
macro_rules! w_allowed_four {
    ($name:ident, $v:expr) => {
        #[kani::proof]
        #[kani::stub(core::fmt::write, no_fmt)]
        #[kani::stub(netflow_parser::static_versions::v5::V5Parser::parse, v5_model)]
        #[kani::stub(netflow_parser::static_versions::v7::V7Parser::parse, v7_model)]
        #[kani::stub(netflow_parser::variable_versions::v9::V9Parser::parse, v9_model)]
        #[kani::stub(netflow_parser::variable_versions::ipfix::IPFixParser::parse, ipfix_model)]
        fn $name() {
            const V: u16 = $v;
            const N: usize = match V {
                5 | 7 => 24,
                9 => 20,
                _ => 16,
            };
            let mut buf: [u8; N] = kani::any();
            put16(&mut buf, 0, V);
            put16(&mut buf, 2, if V == 10 { 16 } else { 0 });
            let a: [u16; 4] = kani::any();
            let mut p = NetflowParser::default();
            p.allowed_versions = a.into();
            let r = p.parse_bytes(&buf);
            let allowed = a[0] == V || a[1] == V || a[2] == V || a[3] == V;
            assert!(r.len() == if allowed { 1 } else { 0 });
            if allowed {
                assert!(version_of(&r[0]) == V);
            }
            kani::cover!(!allowed && a[0] != a[1] && a[0] != a[2] && a[0] != a[3] && a[1] != a[2] && a[1] != a[3] && a[2] != a[3]);
            kani::cover!(allowed);
            core::mem::forget(r);
            core::mem::forget(p);
        }
    };
}
w_allowed_four!(w_allowed_four_5, 5);
w_allowed_four!(w_allowed_four_9, 9);
w_allowed_four!(w_allowed_four_10, 10);
