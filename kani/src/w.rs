//! W layer: `NetflowParser::parse_bytes` / `parse_packet_by_version` (version dispatch,
//! allowed-version filter, chaining by recursion, error wrapping, `remaining` bytes) with
//! the four per-version entry points replaced by models that are *exact on the harness
//! domain*: header-only packets (V5/V7/V9 with count == 0, IPFIX with length == 16).  The
//! models `assume` that domain, so the solver only explores buffers inside it, and the
//! concrete playback (which runs the real decoders) behaves identically.
use crate::common::*;
use netflow_parser::static_versions::{v5, v7};
use netflow_parser::variable_versions::{ipfix, v9};
use netflow_parser::{NetflowPacket, NetflowParseError, NetflowParser, ParsedNetflow, PartialParse};

fn partial(version: u16) -> NetflowParseError {
    // PartialParse.remaining / .error are not observed by any W harness
    NetflowParseError::Partial(PartialParse { version, remaining: Vec::new(), error: String::new() })
}

/// remaining = packet[k..] without a symbolic-size allocation request: capacity is the
/// constant MAXREM, length is whatever is left.
const MAXREM: usize = 64;
fn rest(packet: &[u8], k: usize) -> Vec<u8> {
    let mut v = Vec::with_capacity(MAXREM);
    let mut i = 0;
    while i < MAXREM {
        if k + i < packet.len() {
            v.push(packet[k + i]);
        }
        i += 1;
    }
    v
}

pub fn v5_model(packet: &[u8]) -> Result<ParsedNetflow, NetflowParseError> {
    if packet.len() >= 2 {
        kani::assume(be16(packet, 0) == 0);
    }
    if packet.len() < 22 {
        return Err(partial(5));
    }
    let header = v5::Header {
        version: 5,
        count: 0,
        sys_up_time: be32(packet, 2),
        unix_secs: be32(packet, 6),
        unix_nsecs: be32(packet, 10),
        flow_sequence: be32(packet, 14),
        engine_type: packet[18],
        engine_id: packet[19],
        sampling_interval: be16(packet, 20),
    };
    Ok(ParsedNetflow { remaining: rest(packet, 22), result: NetflowPacket::V5(v5::V5 { header, flowsets: Vec::new() }) })
}

pub fn v7_model(packet: &[u8]) -> Result<ParsedNetflow, NetflowParseError> {
    if packet.len() >= 2 {
        kani::assume(be16(packet, 0) == 0);
    }
    if packet.len() < 22 {
        return Err(partial(7));
    }
    let header = v7::Header {
        version: 7,
        count: 0,
        sys_up_time: be32(packet, 2),
        unix_secs: be32(packet, 6),
        unix_nsecs: be32(packet, 10),
        flow_sequence: be32(packet, 14),
        reserved: be32(packet, 18),
    };
    Ok(ParsedNetflow { remaining: rest(packet, 22), result: NetflowPacket::V7(v7::V7 { header, flowsets: Vec::new() }) })
}

pub fn v9_model(_s: &mut v9::V9Parser, packet: &[u8]) -> Result<ParsedNetflow, NetflowParseError> {
    if packet.len() >= 2 {
        kani::assume(be16(packet, 0) == 0);
    }
    if packet.len() < 18 {
        return Err(partial(9));
    }
    let header = v9::Header {
        version: 9,
        count: 0,
        sys_up_time: be32(packet, 2),
        unix_secs: be32(packet, 6),
        sequence_number: be32(packet, 10),
        source_id: be32(packet, 14),
    };
    Ok(ParsedNetflow { remaining: rest(packet, 18), result: NetflowPacket::V9(v9::V9 { header, flowsets: Vec::new() }) })
}

pub fn ipfix_model(_s: &mut ipfix::IPFixParser, packet: &[u8]) -> Result<ParsedNetflow, NetflowParseError> {
    if packet.len() >= 2 {
        kani::assume(be16(packet, 0) == 16);
    }
    if packet.len() < 14 {
        return Err(partial(10));
    }
    let header = ipfix::Header {
        version: 10,
        length: 16,
        export_time: be32(packet, 2),
        sequence_number: be32(packet, 6),
        observation_domain_id: be32(packet, 10),
    };
    Ok(ParsedNetflow { remaining: rest(packet, 14), result: NetflowPacket::IPFix(ipfix::IPFix { header, flowsets: Vec::new() }) })
}

/// wire length of a header-only packet of a known version
fn wire(v: u16) -> usize {
    match v {
        5 | 7 => 24,
        9 => 20,
        _ => 16,
    }
}
fn known(v: u16) -> bool {
    v == 5 || v == 7 || v == 9 || v == 10
}

/// Reference decomposition (C02/C12): walk the buffer; at each position: empty => stop;
/// < 2 bytes => Error; version not allowed => stop silently; allowed but unknown => Error;
/// known and complete => packet, advance; known and short => Error.
/// Returns (#packets, offsets, has_error, error_offset).
fn model_walk(b: &[u8], n: usize, allowed: &[u16; 3]) -> (usize, [usize; 3], bool, usize) {
    let mut offs = [0usize; 3];
    let mut k = 0usize;
    let mut pos = 0usize;
    let mut i = 0;
    while i < 4 {
        if pos >= n {
            return (k, offs, false, pos);
        }
        if n - pos < 2 {
            return (k, offs, true, pos);
        }
        let v = be16(b, pos);
        if !(v == allowed[0] || v == allowed[1] || v == allowed[2]) {
            return (k, offs, false, pos);
        }
        if !known(v) || n - pos < wire(v) || k == 3 {
            return (k, offs, true, pos);
        }
        offs[k] = pos;
        k += 1;
        pos += wire(v);
        i += 1;
    }
    (k, offs, false, pos)
}

fn version_of(p: &NetflowPacket) -> u16 {
    match p {
        NetflowPacket::V5(_) => 5,
        NetflowPacket::V7(_) => 7,
        NetflowPacket::V9(_) => 9,
        NetflowPacket::IPFix(_) => 10,
        NetflowPacket::Error(_) => 0,
    }
}

/// a per-version header word that must be carried through (detects reordering / mixing)
fn word_of(p: &NetflowPacket) -> u32 {
    match p {
        NetflowPacket::V5(x) => x.header.sys_up_time,
        NetflowPacket::V7(x) => x.header.sys_up_time,
        NetflowPacket::V9(x) => x.header.sys_up_time,
        NetflowPacket::IPFix(x) => x.header.export_time,
        NetflowPacket::Error(_) => 0,
    }
}

macro_rules! w_harness {
    ($name:ident, $N:expr) => {
        /// C02, C11 (chaining), C12, C14 (W part): result == reference decomposition.
        #[kani::proof]
        #[kani::stub(core::fmt::write, no_fmt)]
        #[kani::stub(netflow_parser::static_versions::v5::V5Parser::parse, v5_model)]
        #[kani::stub(netflow_parser::static_versions::v7::V7Parser::parse, v7_model)]
        #[kani::stub(netflow_parser::variable_versions::v9::V9Parser::parse, v9_model)]
        #[kani::stub(netflow_parser::variable_versions::ipfix::IPFixParser::parse, ipfix_model)]
        fn $name() {
            const N: usize = $N;
            let buf: [u8; N] = kani::any();
            let n: usize = kani::any();
            kani::assume(n <= N);
            let allowed: [u16; 3] = kani::any();
            let mut p = NetflowParser::default();
            p.allowed_versions = allowed.into();
            let r = p.parse_bytes(&buf[..n]);
            let (k, offs, has_err, epos) = model_walk(&buf, n, &allowed);
            assert!(r.len() == k + has_err as usize);
            let mut i = 0;
            while i < 3 {
                if i < k {
                    let v = be16(&buf, offs[i]);
                    assert!(version_of(&r[i]) == v);
                    assert!(word_of(&r[i]) == be32(&buf, offs[i] + 4));
                }
                i += 1;
            }
            if has_err {
                match &r[k] {
                    NetflowPacket::Error(e) => {
                        // remaining = exact unconsumed suffix, starting at the version field
                        assert!(e.remaining.len() == n - epos);
                        let j: usize = kani::any();
                        if j < n - epos {
                            assert!(e.remaining[j] == buf[epos + j]);
                        }
                        if n - epos >= 2 {
                            let v = be16(&buf, epos);
                            match &e.error {
                                NetflowParseError::UnknownVersion(_) => assert!(!known(v)),
                                NetflowParseError::Partial(pp) => assert!(known(v) && pp.version == v),
                                _ => assert!(false),
                            }
                        } else {
                            match &e.error {
                                NetflowParseError::Incomplete(_) => {}
                                _ => assert!(false),
                            }
                        }
                    }
                    _ => assert!(false),
                }
            }
            // header-only packets, disallowed and unknown versions never touch the caches
            assert!(p.v9_parser.templates.len() == 0 && p.v9_parser.options_templates.len() == 0);
            assert!(p.ipfix_parser.templates.len() == 0 && p.ipfix_parser.options_templates.len() == 0);
            kani::cover!(k == 2 && !has_err && epos == n);
            kani::cover!(k == 2 && has_err);
            kani::cover!(k == 1 && !has_err && epos < n);
            kani::cover!(k == 0 && has_err && n == 1);
            kani::cover!(k == 1 && has_err && n - epos >= 2 && !known(be16(&buf, epos)));
            core::mem::forget(r);
            core::mem::forget(p);
        }
    };
}
w_harness!(w_decompose_40, 40);
w_harness!(w_decompose_50, 50);

/// C02: an empty buffer yields an empty list, whatever the allowed set.
#[kani::proof]
#[kani::stub(core::fmt::write, no_fmt)]
fn w_empty() {
    let allowed: [u16; 3] = kani::any();
    let mut p = NetflowParser::default();
    p.allowed_versions = allowed.into();
    let r = p.parse_bytes(&[]);
    assert!(r.is_empty());
    core::mem::forget(r);
    core::mem::forget(p);
}
