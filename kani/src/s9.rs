//! S/T layers for NetFlow V9: `v9::FlowSet::parse` (header, length-4 arithmetic, id
//! dispatch, template records, cache read/update) from an *arbitrary* small cache state.
//!
//! Reference (RFC 3954 §5.2/§5.3/§6.1): a FlowSet is `id(2) length(2) body(length-4)`.
//! id 0: body = template records `template_id(2) field_count(2) {type(2) length(2)}*count`
//! back to back, rest is padding.  id 1: options template records
//! `template_id(2) scope_len(2) option_len(2) {type,len}*(scope_len/4) {type,len}*(option_len/4)`.
//! id > 255: data governed by the cached (options) template of that id.
use crate::common::*;
use netflow_parser::variable_versions::v9::{
    Data, FlowSet, FlowSetBody, OptionsData, OptionsTemplate, OptionsTemplateScopeField, Template,
    TemplateField, V9Parser,
};
use netflow_parser::variable_versions::v9_lookup::{ScopeFieldType, V9Field};

pub fn any_field() -> TemplateField {
    let n: u16 = kani::any();
    TemplateField { field_type_number: n, field_type: V9Field::from(n), field_length: kani::any() }
}

pub fn field_eq(f: &TemplateField, b: &[u8], o: usize) -> bool {
    f.field_type_number == be16(b, o)
        && f.field_type == V9Field::from(be16(b, o))
        && f.field_length == be16(b, o + 2)
}

/// Reference split of a template-flowset body into records; returns (#records, start
/// offsets, end of last record).  At most 3 records fit the 12-byte body used here.
pub fn model_templates(body: &[u8], blen: usize) -> (usize, [usize; 3], usize) {
    let mut starts = [0usize; 3];
    let mut m = 0;
    let mut pos = 0;
    let mut k = 0;
    while k < 3 {
        if blen - pos < 4 {
            break;
        }
        let fc = be16(body, pos + 2) as usize;
        if pos + 4 + 4 * fc > blen {
            break;
        }
        starts[m] = pos;
        m += 1;
        pos += 4 + 4 * fc;
        k += 1;
    }
    (m, starts, pos)
}

/// S/T: template flowset (id 0) against a symbolic one-entry cache, one harness per
/// *shape* (record count and per-record field counts are written into the buffer; ids,
/// field types, field lengths, padding bytes and the cached entry are symbolic).
/// Decides: consumption = length; records as sent; incomplete trailing record and
/// leftovers = padding; cache afterwards = pre-state overwritten by exactly the contained
/// complete records, last definition of an id wins, every other id untouched;
/// options-template cache untouched.
macro_rules! s_v9_template {
    ($name:ident, $fcs:expr, $nrec:expr, $pad:expr, $trunc:expr) => {
        s_v9_template!($name, $fcs, $nrec, $pad, $trunc, 1);
    };
    ($name:ident, $fcs:expr, $nrec:expr, $pad:expr, $trunc:expr, $cfc:expr) => {
        #[kani::proof]
        #[kani::stub(core::fmt::write, no_fmt)]
        fn $name() {
            const FCS: [u16; 3] = $fcs;
            const NREC: usize = $nrec; // complete records
            const PAD: usize = $pad; // trailing bytes after the complete records
            const TRUNC: bool = $trunc; // the trailing bytes start a record that does not fit
            const B: usize = {
                let mut t = PAD;
                let mut k = 0;
                while k < NREC {
                    t += 4 + 4 * FCS[k] as usize;
                    k += 1;
                }
                t
            };
            const N: usize = 4 + B + 2;
            // cached entry with CFC symbolic fields: it may coincide with an incoming record in
            // id, field count, field types, total size - and still differ
            const CFC: usize = $cfc;
            let mut p = V9Parser::default();
            let c0: u16 = kani::any();
            let cf = any_field();
            let cf_copy = cf.clone();
            let cf1 = any_field();
            let cf1_copy = cf1.clone();
            p.templates.insert(c0, Template { template_id: c0, field_count: CFC as u16, fields: if CFC == 2 { vec![cf, cf1] } else { vec![cf] } });
            let mut buf: [u8; N] = kani::any();
            buf[0] = 0;
            buf[1] = 0;
            put16(&mut buf, 2, (4 + B) as u16);
            let mut starts = [0usize; 3];
            let mut pos = 4;
            let mut k = 0;
            while k < NREC {
                starts[k] = pos;
                put16(&mut buf, pos + 2, FCS[k]);
                pos += 4 + 4 * FCS[k] as usize;
                k += 1;
            }
            if TRUNC {
                // PAD >= 4: a record header announcing more fields than remain
                put16(&mut buf, pos + 2, 9);
            }
            let r = FlowSet::parse(&buf, &mut p);
            match &r {
                Ok((rem, fs)) => {
                    assert!(rem.len() == 2);
                    assert!(fs.header.flowset_id == 0 && fs.header.length == (4 + B) as u16);
                    match &fs.body {
                        FlowSetBody::Template(ts) => {
                            assert!(ts.templates.len() == NREC);
                            assert!(ts.padding.len() == PAD);
                            let mut i = 0;
                            while i < PAD {
                                assert!(ts.padding[i] == buf[4 + B - PAD + i]);
                                i += 1;
                            }
                            let mut k = 0;
                            while k < NREC {
                                let t = &ts.templates[k];
                                let o = starts[k];
                                assert!(t.template_id == be16(&buf, o));
                                assert!(t.field_count == FCS[k]);
                                assert!(t.fields.len() == FCS[k] as usize);
                                let mut j = 0;
                                while j < FCS[k] as usize {
                                    assert!(field_eq(&t.fields[j], &buf, o + 4 + 4 * j));
                                    j += 1;
                                }
                                k += 1;
                            }
                            // cache post-state, probed at an arbitrary id
                            let q: u16 = kani::any();
                            let mut last: usize = 3;
                            let mut k = 0;
                            while k < NREC {
                                if be16(&buf, starts[k]) == q {
                                    last = k;
                                }
                                k += 1;
                            }
                            match p.templates.get(&q) {
                                Some(t) => {
                                    if last < 3 {
                                        let o = starts[last];
                                        assert!(t.template_id == q);
                                        assert!(t.field_count == FCS[last]);
                                        assert!(t.fields.len() == FCS[last] as usize);
                                        let mut j = 0;
                                        while j < FCS[last] as usize {
                                            assert!(field_eq(&t.fields[j], &buf, o + 4 + 4 * j));
                                            j += 1;
                                        }
                                    } else {
                                        assert!(q == c0);
                                        assert!(t.template_id == c0 && t.field_count == CFC as u16 && t.fields.len() == CFC);
                                        assert!(t.fields[0] == cf_copy);
                                        assert!(CFC < 2 || t.fields[1] == cf1_copy);
                                    }
                                }
                                None => assert!(last == 3 && q != c0),
                            }
                            assert!(p.options_templates.len() == 0);
                            kani::cover!(last == 3 && q == c0);
                            kani::cover!(NREC == 0 || last == NREC - 1);
                            kani::cover!(NREC < 2 || (last == 1 && be16(&buf, starts[0]) == q));
                        }
                        _ => assert!(false),
                    }
                }
                Err(_) => assert!(false),
            }
            core::mem::forget(r);
            core::mem::forget(p);
        }
    };
}
s_v9_template!(s_v9_template_2f, [2, 0, 0], 1, 0, false);
s_v9_template!(s_v9_template_1f_pad3, [1, 0, 0], 1, 3, false);
s_v9_template!(s_v9_template_1f_1f, [1, 1, 0], 2, 2, false);
s_v9_template!(s_v9_template_1f_0f_1f, [1, 0, 1], 3, 0, false);
s_v9_template!(s_v9_template_1f_trunc, [1, 0, 0], 1, 6, true);
s_v9_template!(s_v9_template_only_trunc, [0, 0, 0], 0, 5, true);
// cached entry of the same shape (two fields) as the incoming record
s_v9_template!(s_v9_template_2f_c2, [2, 0, 0], 1, 0, false, 2);

/// S (C14/C06): template flowset whose declared length exceeds the buffer: Err, cache unchanged
/// (see s_v9_truncated_t below for all lengths).

pub fn scope_eq(f: &OptionsTemplateScopeField, b: &[u8], o: usize) -> bool {
    f.field_type_number == be16(b, o)
        && f.field_type == ScopeFieldType::from(be16(b, o))
        && f.field_length == be16(b, o + 2)
}

/// S/T: options-template flowset (id 1), shapes written (scope length, option length,
/// padding), everything else symbolic.
macro_rules! s_v9_options_template {
    ($name:ident, $sl:expr, $ol:expr, $pad:expr) => {
        s_v9_options_template!($name, $sl, $ol, $pad, false);
    };
    ($name:ident, $sl:expr, $ol:expr, $pad:expr, $cached:expr) => {
        #[kani::proof]
        #[kani::stub(core::fmt::write, no_fmt)]
        fn $name() {
            const SL: usize = $sl; // scope fields
            const OL: usize = $ol; // option fields
            const PAD: usize = $pad;
            const B: usize = 6 + 4 * (SL + OL) + PAD;
            const N: usize = 4 + B + 1;
            // optional pre-state: one cached options template (symbolic id, 1 scope + 1 option
            // field, both symbolic) that the incoming record may redefine or leave alone
            const CACHED: bool = $cached;
            let mut p = V9Parser::default();
            let c0: u16 = kani::any();
            let csn: u16 = kani::any();
            let csl: u16 = kani::any();
            let cof = any_field();
            let cof_copy = cof.clone();
            if CACHED {
                p.options_templates.insert(c0, OptionsTemplate {
                    template_id: c0,
                    options_scope_length: 4,
                    options_length: 4,
                    scope_fields: vec![OptionsTemplateScopeField { field_type_number: csn, field_type: ScopeFieldType::from(csn), field_length: csl }],
                    option_fields: vec![cof],
                });
            }
            let mut buf: [u8; N] = kani::any();
            buf[0] = 0;
            buf[1] = 1;
            put16(&mut buf, 2, (4 + B) as u16);
            put16(&mut buf, 6, (4 * SL) as u16);
            put16(&mut buf, 8, (4 * OL) as u16);
            let r = FlowSet::parse(&buf, &mut p);
            match &r {
                Ok((rem, fs)) => {
                    assert!(rem.len() == 1);
                    match &fs.body {
                        FlowSetBody::OptionsTemplate(ts) => {
                            assert!(ts.templates.len() == 1);
                            assert!(ts.padding.len() == PAD);
                            let mut i = 0;
                            while i < PAD {
                                assert!(ts.padding[i] == buf[4 + B - PAD + i]);
                                i += 1;
                            }
                            let t = &ts.templates[0];
                            let id = be16(&buf, 4);
                            assert!(t.template_id == id);
                            assert!(t.options_scope_length == (4 * SL) as u16);
                            assert!(t.options_length == (4 * OL) as u16);
                            assert!(t.scope_fields.len() == SL && t.option_fields.len() == OL);
                            let mut j = 0;
                            while j < SL {
                                assert!(scope_eq(&t.scope_fields[j], &buf, 10 + 4 * j));
                                j += 1;
                            }
                            let mut j = 0;
                            while j < OL {
                                assert!(field_eq(&t.option_fields[j], &buf, 10 + 4 * SL + 4 * j));
                                j += 1;
                            }
                            if CACHED && c0 != id {
                                assert!(p.options_templates.len() == 2);
                                let old = p.options_templates.get(&c0).unwrap();
                                assert!(old.template_id == c0 && old.scope_fields.len() == 1 && old.option_fields.len() == 1);
                                assert!(old.scope_fields[0].field_type_number == csn && old.scope_fields[0].field_length == csl);
                                assert!(old.option_fields[0] == cof_copy);
                            } else {
                                assert!(p.options_templates.len() == 1);
                            }
                            kani::cover!(!CACHED || c0 == id);
                            let ct = p.options_templates.get(&id).unwrap();
                            assert!(ct.template_id == id && ct.options_scope_length == t.options_scope_length && ct.options_length == t.options_length);
                            assert!(ct.scope_fields.len() == SL && ct.option_fields.len() == OL);
                            let mut j = 0;
                            while j < SL {
                                assert!(scope_eq(&ct.scope_fields[j], &buf, 10 + 4 * j));
                                j += 1;
                            }
                            let mut j = 0;
                            while j < OL {
                                assert!(field_eq(&ct.option_fields[j], &buf, 10 + 4 * SL + 4 * j));
                                j += 1;
                            }
                            assert!(p.templates.len() == 0);
                        }
                        _ => assert!(false),
                    }
                }
                Err(_) => assert!(false),
            }
            core::mem::forget(r);
            core::mem::forget(p);
        }
    };
}
s_v9_options_template!(s_v9_options_template_1_1, 1, 1, 2);
s_v9_options_template!(s_v9_options_template_2_0, 2, 0, 0);
s_v9_options_template!(s_v9_options_template_0_2, 0, 2, 3);
s_v9_options_template!(s_v9_options_template_1_1_c, 1, 1, 0, true);

// ---- exact-on-domain models of the D layer (DESIGN §3.3): with every cached field length
// >= 8 and a body of at most 7 bytes, no record and no field fits, so the real functions
// return "no records, body is padding".  The stubs assert that domain.
pub fn small_vec(i: &[u8]) -> Vec<u8> {
    let mut v = Vec::with_capacity(8);
    let mut k = 0;
    while k < 7 {
        if k < i.len() {
            v.push(i[k]);
        }
        k += 1;
    }
    v
}

pub fn data_model<'a>(i: &'a [u8], parser: &mut V9Parser, id: u16) -> nom::IResult<&'a [u8], Data>
where
    'a: 'a,
{
    assert!(i.len() <= 7);
    assert!(parser.templates.contains_key(&id));
    Ok((&i[i.len()..], Data { fields: Vec::new(), padding: small_vec(i) }))
}

pub fn options_data_model<'a>(
    i: &'a [u8],
    parser: &mut V9Parser,
    id: u16,
) -> nom::IResult<&'a [u8], OptionsData>
where
    'a: 'a,
{
    assert!(i.len() <= 7);
    assert!(parser.options_templates.contains_key(&id));
    Ok((&i[i.len()..], OptionsData { scope_fields: Vec::new(), options_fields: Vec::new(), padding: small_vec(i) }))
}

fn big_field() -> TemplateField {
    let mut f = any_field();
    kani::assume(f.field_length >= 8);
    f
}

/// S: data-id flowsets (id written as 300) against a symbolic cache of one template and
/// one options template with symbolic ids.  Decides dispatch (options template first,
/// then template, else error), consumption, that the caches are not modified by data /
/// unknown ids (C06, C07), and that an unknown id never reaches a data decoder.
#[kani::proof]
#[kani::stub(core::fmt::write, no_fmt)]
#[kani::stub(netflow_parser::variable_versions::v9::Data::parse, data_model)]
#[kani::stub(netflow_parser::variable_versions::v9::OptionsData::parse, options_data_model)]
fn s_v9_data_dispatch() {
    const N: usize = 4 + 7 + 3;
    let mut p = V9Parser::default();
    let tid: u16 = kani::any();
    let oid: u16 = kani::any();
    let tf = big_field();
    let tf_copy = tf.clone();
    p.templates.insert(tid, Template { template_id: tid, field_count: 1, fields: vec![tf] });
    let sf_n: u16 = kani::any();
    let sf = OptionsTemplateScopeField { field_type_number: sf_n, field_type: ScopeFieldType::from(sf_n), field_length: kani::any() };
    kani::assume(sf.field_length >= 8);
    p.options_templates.insert(
        oid,
        OptionsTemplate { template_id: oid, options_scope_length: 4, options_length: 4, scope_fields: vec![sf], option_fields: vec![big_field()] },
    );
    let mut buf: [u8; N] = kani::any();
    buf[0] = 1;
    buf[1] = 44; // flowset id 300
    let id: u16 = 300;
    let len = be16(&buf, 2);
    kani::assume(len <= 11);
    let body = if len < 4 { 0 } else { (len - 4) as usize };
    let r = FlowSet::parse(&buf, &mut p);
    match &r {
        Ok((rem, fs)) => {
            assert!(rem.len() == N - 4 - body);
            assert!(fs.header.flowset_id == id && fs.header.length == len);
            match &fs.body {
                FlowSetBody::OptionsData(d) => {
                    assert!(oid == id);
                    assert!(d.padding.len() == body);
                }
                FlowSetBody::Data(d) => {
                    assert!(tid == id && oid != id);
                    assert!(d.fields.len() == 0 && d.padding.len() == body);
                    let i: usize = kani::any();
                    if i < body {
                        assert!(d.padding[i] == buf[4 + i]);
                    }
                }
                _ => assert!(false),
            }
            kani::cover!(tid == id && oid == id);
            kani::cover!(tid == id && oid != id && body == 7);
        }
        Err(_) => {
            // C07: only an id known to neither cache is refused
            assert!(tid != id && oid != id);
            kani::cover!(true);
        }
    }
    // C06/C07: data and unknown ids never change the caches
    assert!(p.templates.len() == 1 && p.options_templates.len() == 1);
    let t = p.templates.get(&tid).unwrap();
    assert!(t.template_id == tid && t.field_count == 1 && t.fields.len() == 1 && t.fields[0] == tf_copy);
    assert!(p.options_templates.contains_key(&oid));
    core::mem::forget(r);
    core::mem::forget(p);
}

/// S (C14): a flowset whose declared length exceeds the available bytes is an error for
/// every id class, and leaves both caches untouched.  One harness per id class (the id
/// bytes are written concretely so that symex explores one body kind at a time).
macro_rules! s_v9_truncated {
    ($name:ident, $hi:expr, $lo:expr, $len:expr) => {
        #[kani::proof]
        #[kani::stub(core::fmt::write, no_fmt)]
        #[kani::stub(netflow_parser::variable_versions::v9::Data::parse, data_model)]
        #[kani::stub(netflow_parser::variable_versions::v9::OptionsData::parse, options_data_model)]
        fn $name() {
            const N: usize = 10;
            let mut p = V9Parser::default();
            let tid: u16 = kani::any();
            p.templates.insert(tid, Template { template_id: tid, field_count: 1, fields: vec![big_field()] });
            let mut buf: [u8; N] = kani::any();
            buf[0] = $hi;
            buf[1] = $lo;
            put16(&mut buf, 2, $len); // declared length > N available bytes
            let r = FlowSet::parse(&buf, &mut p);
            assert!(r.is_err());
            assert!(p.templates.len() == 1 && p.options_templates.len() == 0);
            kani::cover!(tid == 300);
            core::mem::forget(r);
            core::mem::forget(p);
        }
    };
}
s_v9_truncated!(s_v9_truncated_t, 0, 0, 11);
s_v9_truncated!(s_v9_truncated_t_max, 0, 0, 65535);
s_v9_truncated!(s_v9_truncated_o, 0, 1, 13);
s_v9_truncated!(s_v9_truncated_d, 1, 44, 11);
s_v9_truncated!(s_v9_truncated_d_max, 1, 44, 65535);
