//! S/T layers for NetFlow V9: `v9::FlowSet::parse` (header, length-4 arithmetic, id
//! dispatch, template records, cache read/update) from an *arbitrary* small cache state.
//!
//! Reference (RFC 3954 §5.2/§5.3/§6.1): a FlowSet is `id(2) length(2) body(length-4)`.
//! id 0: body = template records `template_id(2) field_count(2) {type(2) length(2)}*count`
//! back to back, rest is padding.  id 1: options template records
//! `template_id(2) scope_len(2) option_len(2) {type,len}*(scope_len/4) {type,len}*(option_len/4)`.
//! id > 255: data governed by the cached (options) template of that id.
use crate::common::*;
use netflow_parser::variable_versions::v9::{
    Data, FlowSet, FlowSetBody, OptionsData, OptionsTemplate, OptionsTemplateScopeField, Template,
    TemplateField, V9Parser,
};
use netflow_parser::variable_versions::v9_lookup::{ScopeFieldType, V9Field};

pub fn any_field() -> TemplateField {
    let n: u16 = kani::any();
    TemplateField { field_type_number: n, field_type: V9Field::from(n), field_length: kani::any() }
}

pub fn field_eq(f: &TemplateField, b: &[u8], o: usize) -> bool {
    f.field_type_number == be16(b, o)
        && f.field_type == V9Field::from(be16(b, o))
        && f.field_length == be16(b, o + 2)
}

/// Reference split of a template-flowset body into records; returns (#records, start
/// offsets, end of last record).  At most 3 records fit the 12-byte body used here.
pub fn model_templates(body: &[u8], blen: usize) -> (usize, [usize; 3], usize) {
    let mut starts = [0usize; 3];
    let mut m = 0;
    let mut pos = 0;
    let mut k = 0;
    while k < 3 {
        if blen - pos < 4 {
            break;
        }
        let fc = be16(body, pos + 2) as usize;
        if pos + 4 + 4 * fc > blen {
            break;
        }
        starts[m] = pos;
        m += 1;
        pos += 4 + 4 * fc;
        k += 1;
    }
    (m, starts, pos)
}

/// S/T: template flowset (id 0) against a symbolic one-entry cache.
/// Decides: consumption = 4 + max(length-4, 0) or Err when the body is not available;
/// records as sent; incomplete trailing record and leftovers = padding; cache afterwards =
/// pre-state overwritten by exactly the contained complete records, last definition of an
/// id wins, every other id untouched; options-template cache untouched.
#[kani::proof]
#[kani::stub(core::fmt::write, no_fmt)]
fn s_v9_template() {
    const B: usize = 12;
    const N: usize = 4 + B + 2;
    let mut p = V9Parser::default();
    let c0: u16 = kani::any();
    let cf = any_field();
    let cf_copy = cf.clone();
    p.templates.insert(c0, Template { template_id: c0, field_count: 1, fields: vec![cf] });
    let mut buf: [u8; N] = kani::any();
    buf[0] = 0;
    buf[1] = 0;
    let len = be16(&buf, 2);
    let body = if len < 4 { 0 } else { (len - 4) as usize };
    let r = FlowSet::parse(&buf, &mut p);
    if body > N - 4 {
        assert!(r.is_err());
        // nothing learned from an unavailable body
        assert!(p.templates.len() == 1);
    } else {
        kani::assume(body <= B);
        match &r {
            Ok((rem, fs)) => {
                assert!(rem.len() == N - 4 - body);
                assert!(fs.header.flowset_id == 0 && fs.header.length == len);
                let (m, starts, end) = model_templates(&buf[4..], body);
                match &fs.body {
                    FlowSetBody::Template(ts) => {
                        assert!(ts.templates.len() == m);
                        assert!(ts.padding.len() == body - end);
                        let pi: usize = kani::any();
                        if pi < body - end {
                            assert!(ts.padding[pi] == buf[4 + end + pi]);
                        }
                        let mut k = 0;
                        while k < 3 {
                            if k < m {
                                let t = &ts.templates[k];
                                let o = 4 + starts[k];
                                assert!(t.template_id == be16(&buf, o));
                                assert!(t.field_count == be16(&buf, o + 2));
                                assert!(t.fields.len() == t.field_count as usize);
                                let mut j = 0;
                                while j < 2 {
                                    if j < t.fields.len() {
                                        assert!(field_eq(&t.fields[j], &buf, o + 4 + 4 * j));
                                    }
                                    j += 1;
                                }
                            }
                            k += 1;
                        }
                        // cache post-state, probed at an arbitrary id
                        let q: u16 = kani::any();
                        let mut last: usize = 3;
                        let mut k = 0;
                        while k < 3 {
                            if k < m && be16(&buf, 4 + starts[k]) == q {
                                last = k;
                            }
                            k += 1;
                        }
                        match p.templates.get(&q) {
                            Some(t) => {
                                if last < 3 {
                                    let o = 4 + starts[last];
                                    assert!(t.template_id == q);
                                    assert!(t.field_count == be16(&buf, o + 2));
                                    assert!(t.fields.len() == t.field_count as usize);
                                    if t.fields.len() >= 1 {
                                        assert!(field_eq(&t.fields[0], &buf, o + 4));
                                    }
                                    if t.fields.len() >= 2 {
                                        assert!(field_eq(&t.fields[1], &buf, o + 8));
                                    }
                                } else {
                                    assert!(q == c0);
                                    assert!(t.template_id == c0 && t.field_count == 1 && t.fields.len() == 1);
                                    assert!(t.fields[0] == cf_copy);
                                }
                            }
                            None => assert!(last == 3 && q != c0),
                        }
                        assert!(p.options_templates.len() == 0);
                        kani::cover!(m == 2 && be16(&buf, 4 + starts[0]) == be16(&buf, 4 + starts[1]) && q == c0);
                        kani::cover!(m == 1 && ts.templates[0].field_count == 2);
                        kani::cover!(m == 1 && body - end == 3);
                        kani::cover!(m == 3);
                        kani::cover!(last == 3 && q == c0);
                    }
                    _ => assert!(false),
                }
            }
            Err(_) => assert!(false),
        }
    }
    core::mem::forget(r);
    core::mem::forget(p);
}

pub fn scope_eq(f: &OptionsTemplateScopeField, b: &[u8], o: usize) -> bool {
    f.field_type_number == be16(b, o)
        && f.field_type == ScopeFieldType::from(be16(b, o))
        && f.field_length == be16(b, o + 2)
}

/// S/T: options-template flowset (id 1) with room for one record of up to 2 fields.
#[kani::proof]
#[kani::stub(core::fmt::write, no_fmt)]
fn s_v9_options_template() {
    const B: usize = 14;
    const N: usize = 4 + B;
    let mut p = V9Parser::default();
    let mut buf: [u8; N] = kani::any();
    buf[0] = 0;
    buf[1] = 1;
    let len = be16(&buf, 2);
    kani::assume(len >= 4 && (len as usize) <= N);
    let body = (len - 4) as usize;
    let r = FlowSet::parse(&buf, &mut p);
    match &r {
        Ok((rem, fs)) => {
            assert!(rem.len() == N - 4 - body);
            match &fs.body {
                FlowSetBody::OptionsTemplate(ts) => {
                    // reference: first record
                    let complete = body >= 6 && {
                        let sl = (be16(&buf, 6) / 4) as usize;
                        let ol = (be16(&buf, 8) / 4) as usize;
                        6 + 4 * (sl + ol) <= body
                    };
                    if complete {
                        let sl = (be16(&buf, 6) / 4) as usize;
                        let ol = (be16(&buf, 8) / 4) as usize;
                        assert!(ts.templates.len() >= 1);
                        let t = &ts.templates[0];
                        assert!(t.template_id == be16(&buf, 4));
                        assert!(t.options_scope_length == be16(&buf, 6));
                        assert!(t.options_length == be16(&buf, 8));
                        assert!(t.scope_fields.len() == sl && t.option_fields.len() == ol);
                        if sl >= 1 {
                            assert!(scope_eq(&t.scope_fields[0], &buf, 10));
                        }
                        if sl >= 2 {
                            assert!(scope_eq(&t.scope_fields[1], &buf, 14));
                        }
                        if ol >= 1 {
                            assert!(field_eq(&t.option_fields[0], &buf, 10 + 4 * sl));
                        }
                        if ol >= 2 {
                            assert!(field_eq(&t.option_fields[1], &buf, 14 + 4 * sl));
                        }
                        let id = be16(&buf, 4);
                        // the record is cached unless a later record in the same body redefines it
                        assert!(p.options_templates.contains_key(&id));
                        if ts.templates.len() == 1 {
                            assert!(ts.padding.len() == body - 6 - 4 * (sl + ol));
                            let ct = p.options_templates.get(&id).unwrap();
                            assert!(*ct == *t);
                            assert!(p.options_templates.len() == 1);
                        }
                        kani::cover!(sl == 1 && ol == 1);
                        kani::cover!(ts.templates.len() == 2);
                    } else {
                        assert!(ts.templates.len() == 0);
                        assert!(ts.padding.len() == body);
                        assert!(p.options_templates.len() == 0);
                        kani::cover!(body == 9);
                    }
                    assert!(p.templates.len() == 0);
                }
                _ => assert!(false),
            }
        }
        Err(_) => assert!(false),
    }
    core::mem::forget(r);
    core::mem::forget(p);
}

// ---- exact-on-domain models of the D layer (DESIGN §3.3): with every cached field length
// >= 8 and a body of at most 7 bytes, no record and no field fits, so the real functions
// return "no records, body is padding".  The stubs assert that domain.
pub fn small_vec(i: &[u8]) -> Vec<u8> {
    let mut v = Vec::with_capacity(8);
    let mut k = 0;
    while k < 7 {
        if k < i.len() {
            v.push(i[k]);
        }
        k += 1;
    }
    v
}

pub fn data_model<'a>(i: &'a [u8], parser: &mut V9Parser, id: u16) -> nom::IResult<&'a [u8], Data>
where
    'a: 'a,
{
    assert!(i.len() <= 7);
    assert!(parser.templates.contains_key(&id));
    Ok((&i[i.len()..], Data { fields: Vec::new(), padding: small_vec(i) }))
}

pub fn options_data_model<'a>(
    i: &'a [u8],
    parser: &mut V9Parser,
    id: u16,
) -> nom::IResult<&'a [u8], OptionsData>
where
    'a: 'a,
{
    assert!(i.len() <= 7);
    assert!(parser.options_templates.contains_key(&id));
    Ok((&i[i.len()..], OptionsData { scope_fields: Vec::new(), options_fields: Vec::new(), padding: small_vec(i) }))
}

fn big_field() -> TemplateField {
    let mut f = any_field();
    kani::assume(f.field_length >= 8);
    f
}

/// S: data-id flowsets (id written as 300) against a symbolic cache of one template and
/// one options template with symbolic ids.  Decides dispatch (options template first,
/// then template, else error), consumption, that the caches are not modified by data /
/// unknown ids (C06, C07), and that an unknown id never reaches a data decoder.
#[kani::proof]
#[kani::stub(core::fmt::write, no_fmt)]
#[kani::stub(netflow_parser::variable_versions::v9::Data::parse, data_model)]
#[kani::stub(netflow_parser::variable_versions::v9::OptionsData::parse, options_data_model)]
fn s_v9_data_dispatch() {
    const N: usize = 4 + 7 + 3;
    let mut p = V9Parser::default();
    let tid: u16 = kani::any();
    let oid: u16 = kani::any();
    let tf = big_field();
    let tf_copy = tf.clone();
    p.templates.insert(tid, Template { template_id: tid, field_count: 1, fields: vec![tf] });
    let sf_n: u16 = kani::any();
    let sf = OptionsTemplateScopeField { field_type_number: sf_n, field_type: ScopeFieldType::from(sf_n), field_length: kani::any() };
    kani::assume(sf.field_length >= 8);
    p.options_templates.insert(
        oid,
        OptionsTemplate { template_id: oid, options_scope_length: 4, options_length: 4, scope_fields: vec![sf], option_fields: vec![big_field()] },
    );
    let mut buf: [u8; N] = kani::any();
    buf[0] = 1;
    buf[1] = 44; // flowset id 300
    let id: u16 = 300;
    let len = be16(&buf, 2);
    kani::assume(len <= 11);
    let body = if len < 4 { 0 } else { (len - 4) as usize };
    let r = FlowSet::parse(&buf, &mut p);
    match &r {
        Ok((rem, fs)) => {
            assert!(rem.len() == N - 4 - body);
            assert!(fs.header.flowset_id == id && fs.header.length == len);
            match &fs.body {
                FlowSetBody::OptionsData(d) => {
                    assert!(oid == id);
                    assert!(d.padding.len() == body);
                }
                FlowSetBody::Data(d) => {
                    assert!(tid == id && oid != id);
                    assert!(d.fields.len() == 0 && d.padding.len() == body);
                    let i: usize = kani::any();
                    if i < body {
                        assert!(d.padding[i] == buf[4 + i]);
                    }
                }
                _ => assert!(false),
            }
            kani::cover!(tid == id && oid == id);
            kani::cover!(tid == id && oid != id && body == 7);
        }
        Err(_) => {
            // C07: only an id known to neither cache is refused
            assert!(tid != id && oid != id);
            kani::cover!(true);
        }
    }
    // C06/C07: data and unknown ids never change the caches
    assert!(p.templates.len() == 1 && p.options_templates.len() == 1);
    let t = p.templates.get(&tid).unwrap();
    assert!(t.template_id == tid && t.field_count == 1 && t.fields.len() == 1 && t.fields[0] == tf_copy);
    assert!(p.options_templates.contains_key(&oid));
    core::mem::forget(r);
    core::mem::forget(p);
}

/// S (C14): a flowset whose declared length exceeds the available bytes is an error for
/// every id class, and leaves both caches untouched.  One harness per id class (the id
/// bytes are written concretely so that symex explores one body kind at a time).
macro_rules! s_v9_truncated {
    ($name:ident, $hi:expr, $lo:expr) => {
        #[kani::proof]
        #[kani::stub(core::fmt::write, no_fmt)]
        #[kani::stub(netflow_parser::variable_versions::v9::Data::parse, data_model)]
        #[kani::stub(netflow_parser::variable_versions::v9::OptionsData::parse, options_data_model)]
        fn $name() {
            const N: usize = 10;
            let mut p = V9Parser::default();
            let tid: u16 = kani::any();
            p.templates.insert(tid, Template { template_id: tid, field_count: 1, fields: vec![big_field()] });
            let mut buf: [u8; N] = kani::any();
            buf[0] = $hi;
            buf[1] = $lo;
            let len = be16(&buf, 2);
            kani::assume(len as usize > N);
            let r = FlowSet::parse(&buf, &mut p);
            assert!(r.is_err());
            assert!(p.templates.len() == 1 && p.options_templates.len() == 0);
            kani::cover!(tid == 300);
            core::mem::forget(r);
            core::mem::forget(p);
        }
    };
}
s_v9_truncated!(s_v9_truncated_t, 0, 0);
s_v9_truncated!(s_v9_truncated_o, 0, 1);
s_v9_truncated!(s_v9_truncated_d, 1, 44);
