//! Kernel models shared by the D, serializer and end-to-end harnesses: exact models of
//! `FieldValue::from_field_type` on restricted domains (exactness is decided by the K layer).
use crate::common::*;
use netflow_parser::variable_versions::data_number::{DataNumber, FieldDataType, FieldValue};

/// Exact model of FieldValue::from_field_type for UnsignedDataNumber with length <= 7
/// (widths 8 and 16 excluded by the harness domain).  Allocation-free.
pub fn unsigned_kernel_model<'a>(
    remaining: &'a [u8],
    ty: FieldDataType,
    len: u16,
) -> nom::IResult<&'a [u8], FieldValue> {
    assert!(ty == FieldDataType::UnsignedDataNumber);
    assert!(len <= 7);
    let fail = |k| Err(nom::Err::Error(nom::error::Error::new(remaining, k)));
    if len == 0 || len > 4 {
        return fail(nom::error::ErrorKind::Fail);
    }
    let w = len as usize;
    if remaining.len() < w {
        return fail(nom::error::ErrorKind::Eof);
    }
    let v = match w {
        1 => DataNumber::U8(remaining[0]),
        2 => DataNumber::U16(be16(remaining, 0)),
        3 => DataNumber::U24(((remaining[0] as u32) << 16) | ((remaining[1] as u32) << 8) | remaining[2] as u32),
        _ => DataNumber::U32(be32(remaining, 0)),
    };
    Ok((&remaining[w..], FieldValue::DataNumber(v)))
}

pub fn num_at(b: &[u8], o: usize, w: usize) -> DataNumber {
    match w {
        1 => DataNumber::U8(b[o]),
        2 => DataNumber::U16(be16(b, o)),
        3 => DataNumber::U24(((b[o] as u32) << 16) | ((b[o + 1] as u32) << 8) | b[o + 2] as u32),
        _ => DataNumber::U32(be32(b, o)),
    }
}

/// Exact model of the kernel for FieldDataType::Unknown with parse_unknown_fields OFF
/// (k::k_unknown_off shows the real kernel fails for every length and input).
#[cfg(feature = "off")]
pub fn unknown_off_kernel_model<'a>(remaining: &'a [u8], ty: FieldDataType, len: u16) -> nom::IResult<&'a [u8], FieldValue> {
    assert!(ty == FieldDataType::Unknown);
    Err(nom::Err::Error(nom::error::Error::new(remaining, nom::error::ErrorKind::Fail)))
}

/// Stub for `FieldValue::to_be_bytes` in harnesses whose packets hold no data records: the
/// function is never called on a feasible path (asserted), but CBMC cannot fold the flowset
/// kind read back from the heap and would otherwise explore the whole value serializer
/// (io::Error construction included) for every flowset.
pub fn fv_to_be_bytes_unreachable(_v: &FieldValue) -> Result<Vec<u8>, std::io::Error> {
    assert!(false);
    Ok(Vec::new())
}

/// Exact model of `FieldValue::to_be_bytes` on the domain "unsigned numbers of width <= 4"
/// (the real function is checked for every data type in the kernel harnesses).
pub fn fv_to_be_bytes_unsigned_model(v: &FieldValue) -> Result<Vec<u8>, std::io::Error> {
    let mut out = Vec::with_capacity(4);
    match v {
        FieldValue::DataNumber(DataNumber::U8(n)) => out.push(*n),
        FieldValue::DataNumber(DataNumber::U16(n)) => {
            out.push((*n >> 8) as u8);
            out.push(*n as u8);
        }
        FieldValue::DataNumber(DataNumber::U24(n)) => {
            out.push((*n >> 16) as u8);
            out.push((*n >> 8) as u8);
            out.push(*n as u8);
        }
        FieldValue::DataNumber(DataNumber::U32(n)) => {
            out.push((*n >> 24) as u8);
            out.push((*n >> 16) as u8);
            out.push((*n >> 8) as u8);
            out.push(*n as u8);
        }
        _ => assert!(false),
    }
    Ok(out)
}

