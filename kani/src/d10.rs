//! D layer, IPFIX: `ipfix::Data::parse` (per-record field loop, variable-length prefix,
//! record recursion and its stop rule, padding), field kernel replaced by the exact
//! unsigned model of d9.rs.
//!
//! Reference (RFC 7011 §3.4.3, §7): a Data Set body is a sequence of records; a record is
//! the concatenation of the template's fields; a field declared 65535 is variable-length:
//! one length byte L < 255, or 255 followed by a 16-bit length; padding is shorter than
//! any record.
//!
//! Result shape today: one single-entry map *per field* (key = field index), records not
//! grouped; the harnesses demand the flattened (index, type, value) sequence.
use crate::common::*;
use crate::km::{num_at, unsigned_kernel_model};
use netflow_parser::variable_versions::data_number::{DataNumber, FieldDataType, FieldValue};
use netflow_parser::variable_versions::ipfix::{Data, IPFixParser, OptionsData, OptionsTemplate, Template, TemplateField};
use netflow_parser::variable_versions::ipfix_lookup::IPFixField;

/// Exact model of ipfix::TemplateField::parse_as_field_value on the domain "plain (non
/// enterprise) unsigned field with a fixed declared length <= 7".  Needed because the field
/// specifier is read back from the heap: without it CBMC also explores the enterprise branch,
/// whose `take(length)` + `to_vec()` has a symbolic size.
pub fn pafv_fixed_unsigned_model<'a>(f: &TemplateField, i: &'a [u8]) -> nom::IResult<&'a [u8], FieldValue> {
    assert!(f.enterprise_number.is_none());
    assert!(f.field_length != 65535);
    unsigned_kernel_model(i, FieldDataType::UnsignedDataNumber, f.field_length)
}

fn legal(l: u16) -> bool {
    l >= 1 && l <= 4
}

fn tf(n: u16, ty: IPFixField, len: u16) -> TemplateField {
    TemplateField { field_type_number: n, field_type: ty, field_length: len, enterprise_number: None }
}

/// D: two unsigned fields, symbolic fixed lengths 0..=5 (not both 0), 7-byte body, <= 2 records.
#[kani::proof]
#[kani::stub(core::fmt::write, no_fmt)]
#[kani::stub(netflow_parser::variable_versions::data_number::FieldValue::from_field_type, unsigned_kernel_model)]
fn d_ipfix_two_fields() {
    const N: usize = 7;
    let l0: u16 = kani::any();
    let l1: u16 = kani::any();
    kani::assume(l0 <= 5 && l1 <= 5);
    let size = (l0 + l1) as usize;
    kani::assume(size >= 3);
    let mut p = IPFixParser::default();
    p.templates.insert(256, Template {
        template_id: 256,
        field_count: 2,
        fields: vec![tf(1, IPFixField::OctetDeltaCount, l0), tf(2, IPFixField::PacketDeltaCount, l1)],
        padding: vec![],
    });
    let buf: [u8; N] = kani::any();
    let r = Data::parse(&buf, &mut p, 256);
    match &r {
        Ok((rem, d)) => {
            assert!(legal(l0) && legal(l1));
            assert!(rem.is_empty());
            let recs = N / size;
            assert!(d.fields.len() == 2 * recs);
            assert!(d.padding.len() == N - recs * size);
            let pi: usize = kani::any();
            if pi < d.padding.len() {
                assert!(d.padding[pi] == buf[recs * size + pi]);
            }
            let mut i = 0;
            while i < 2 {
                if i < recs {
                    let m0 = &d.fields[2 * i];
                    let m1 = &d.fields[2 * i + 1];
                    assert!(m0.len() == 1 && m1.len() == 1);
                    let (t0, v0) = m0.get(&0).unwrap();
                    let (t1, v1) = m1.get(&1).unwrap();
                    assert!(*t0 == IPFixField::OctetDeltaCount && *t1 == IPFixField::PacketDeltaCount);
                    assert!(*v0 == FieldValue::DataNumber(num_at(&buf, i * size, l0 as usize)));
                    assert!(*v1 == FieldValue::DataNumber(num_at(&buf, i * size + l0 as usize, l1 as usize)));
                }
                i += 1;
            }
            kani::cover!(recs == 2 && d.padding.len() == 1);
            kani::cover!(recs == 1 && d.padding.len() == 3);
        }
        Err(_) => {
            // a field of unsupported width makes the set undecodable (never a panic)
            assert!(!(legal(l0) && legal(l1)));
            kani::cover!(l0 == 0);
        }
    }
    assert!(p.templates.len() == 1);
    core::mem::forget(r);
    core::mem::forget(p);
}

/// D: one 2-byte field, 7-byte body: three records (recursion depth 4) + 1 padding byte.
#[kani::proof]
#[kani::stub(core::fmt::write, no_fmt)]
#[kani::stub(netflow_parser::variable_versions::data_number::FieldValue::from_field_type, unsigned_kernel_model)]
fn d_ipfix_three_records() {
    const N: usize = 7;
    let mut p = IPFixParser::default();
    p.templates.insert(256, Template {
        template_id: 256,
        field_count: 1,
        fields: vec![tf(7, IPFixField::SourceTransportPort, 2)],
        padding: vec![],
    });
    let buf: [u8; N] = kani::any();
    let r = Data::parse(&buf, &mut p, 256);
    match &r {
        Ok((rem, d)) => {
            assert!(rem.is_empty());
            assert!(d.fields.len() == 3);
            assert!(d.padding.len() == 1 && d.padding[0] == buf[6]);
            let mut i = 0;
            while i < 3 {
                let (t, v) = d.fields[i].get(&0).unwrap();
                assert!(*t == IPFixField::SourceTransportPort);
                assert!(*v == FieldValue::DataNumber(DataNumber::U16(be16(&buf, 2 * i))));
                i += 1;
            }
        }
        Err(_) => assert!(false),
    }
    core::mem::forget(r);
    core::mem::forget(p);
}

/// D: one variable-length field followed by one 1-byte field; single record filling the
/// body exactly (short and long length prefix).
#[kani::proof]
#[kani::stub(core::fmt::write, no_fmt)]
#[kani::stub(netflow_parser::variable_versions::data_number::FieldValue::from_field_type, unsigned_kernel_model)]
fn d_ipfix_varlen_one_record() {
    const N: usize = 8;
    let mut p = IPFixParser::default();
    p.templates.insert(256, Template {
        template_id: 256,
        field_count: 2,
        fields: vec![tf(1, IPFixField::OctetDeltaCount, 65535), tf(2, IPFixField::PacketDeltaCount, 1)],
        padding: vec![],
    });
    let buf: [u8; N] = kani::any();
    // reference: length prefix
    let (plen, l) = if buf[0] == 255 { (3usize, be16(&buf, 1)) } else { (1usize, buf[0] as u16) };
    kani::assume(legal(l));
    let rec = plen + l as usize + 1;
    let n: usize = rec; // body is exactly one record
    kani::assume(n <= N);
    let r = Data::parse(&buf[..n], &mut p, 256);
    match &r {
        Ok((rem, d)) => {
            assert!(rem.is_empty());
            assert!(d.fields.len() == 2);
            assert!(d.padding.len() == 0);
            let (t0, v0) = d.fields[0].get(&0).unwrap();
            let (t1, v1) = d.fields[1].get(&1).unwrap();
            assert!(*v0 == FieldValue::DataNumber(num_at(&buf, plen, l as usize)));
            assert!(*v1 == FieldValue::DataNumber(DataNumber::U8(buf[plen + l as usize])));
            kani::cover!(plen == 3 && l == 2);
            kani::cover!(plen == 1 && l == 4);
        }
        Err(_) => assert!(false),
    }
    core::mem::forget(r);
    core::mem::forget(p);
}

/// Known-finding witness C05-varlen-short-record-dropped: two conformant records under a
/// variable-length template, the second shorter than the first: the second is reported as
/// padding instead of being decoded.
#[kani::proof]
#[kani::stub(core::fmt::write, no_fmt)]
#[kani::stub(netflow_parser::variable_versions::data_number::FieldValue::from_field_type, unsigned_kernel_model)]
fn d_ipfix_varlen_second_shorter_kf() {
    let mut p = IPFixParser::default();
    p.templates.insert(256, Template {
        template_id: 256,
        field_count: 1,
        fields: vec![tf(1, IPFixField::OctetDeltaCount, 65535)],
        padding: vec![],
    });
    let mut buf: [u8; 5] = kani::any();
    buf[0] = 2; // record 1: two value bytes
    buf[3] = 1; // record 2: one value byte
    let r = Data::parse(&buf, &mut p, 256);
    match &r {
        Ok((rem, d)) => {
            assert!(d.fields.len() == 2);
            assert!(d.padding.len() == 0);
        }
        Err(_) => assert!(false),
    }
    core::mem::forget(r);
    core::mem::forget(p);
}

/// C17: with the feature off, an IPFIX data set governed by a template containing an
/// unknown field type is not reported as decoded data.
#[cfg(feature = "off")]
#[kani::proof]
#[kani::stub(core::fmt::write, no_fmt)]
#[kani::stub(netflow_parser::variable_versions::data_number::FieldValue::from_field_type, crate::km::unknown_off_kernel_model)]
fn d_ipfix_unknown_field_off() {
    let n: u16 = kani::any();
    kani::assume(n < 32768 && IPFixField::from(n) == IPFixField::Unknown);
    let l: u16 = kani::any();
    kani::assume((l >= 1 && l <= 3) || l == 65535); // fixed or variable-length encoding
    let mut p = IPFixParser::default();
    p.templates.insert(256, Template { template_id: 256, field_count: 1, fields: vec![tf(n, IPFixField::from(n), l)], padding: vec![] });
    let buf: [u8; 4] = kani::any();
    let r = Data::parse(&buf, &mut p, 256);
    assert!(r.is_err());
    kani::cover!(l == 65535 && buf[0] == 2);
    core::mem::forget(r);
    core::mem::forget(p);
}

/// D (small): one 2-byte field, 5-byte body: two records + 1 padding byte.
#[kani::proof]
#[kani::stub(core::fmt::write, no_fmt)]
#[kani::stub(netflow_parser::variable_versions::ipfix::TemplateField::parse_as_field_value, pafv_fixed_unsigned_model)]
fn d_ipfix_two_records() {
    const N: usize = 5;
    let mut p = IPFixParser::default();
    p.templates.insert(256, Template {
        template_id: 256,
        field_count: 1,
        fields: vec![tf(7, IPFixField::SourceTransportPort, 2)],
        padding: vec![],
    });
    let buf: [u8; N] = kani::any();
    let r = Data::parse(&buf, &mut p, 256);
    match &r {
        Ok((rem, d)) => {
            assert!(rem.is_empty());
            assert!(d.fields.len() == 2);
            assert!(d.padding.len() == 1 && d.padding[0] == buf[4]);
            let mut i = 0;
            while i < 2 {
                let (t, v) = d.fields[i].get(&0).unwrap();
                assert!(*t == IPFixField::SourceTransportPort);
                assert!(*v == FieldValue::DataNumber(DataNumber::U16(be16(&buf, 2 * i))));
                i += 1;
            }
        }
        Err(_) => assert!(false),
    }
    core::mem::forget(r);
    core::mem::forget(p);
}
