//! V5 / V7 fixed-layout harnesses (C03, C08, C13 part, C14 part).
//! Offsets below are transcribed from the Cisco NetFlow export datagram format tables
//! (version 5: 24-byte header + 48-byte records; version 7: 24-byte header + 52-byte
//! records), *not* from the library's struct definitions.
use crate::common::*;
use netflow_parser::protocol::ProtocolTypes;
use netflow_parser::NetflowPacket;
use netflow_parser::static_versions::v5::{self, V5};
use netflow_parser::static_versions::v7::{self, V7};
use nom_derive::Parse;

// Input to V5::parse / V7::parse starts *after* the 2-byte version field (the dispatcher
// consumed it), so offsets into `b` are Cisco offsets minus 2.
const H: usize = 22; // header bytes after the version field

macro_rules! v5_record_asserts {
    ($r:expr, $b:expr, $o:expr) => {{
        let r = $r;
        let b = $b;
        let o: usize = $o;
        assert!(u32::from(r.src_addr) == be32(b, o));
        assert!(u32::from(r.dst_addr) == be32(b, o + 4));
        assert!(u32::from(r.next_hop) == be32(b, o + 8));
        assert!(r.input == be16(b, o + 12));
        assert!(r.output == be16(b, o + 14));
        assert!(r.d_pkts == be32(b, o + 16));
        assert!(r.d_octets == be32(b, o + 20));
        assert!(r.first == be32(b, o + 24));
        assert!(r.last == be32(b, o + 28));
        assert!(r.src_port == be16(b, o + 32));
        assert!(r.dst_port == be16(b, o + 34));
        assert!(r.pad1 == b[o + 36]);
        assert!(r.tcp_flags == b[o + 37]);
        assert!(r.protocol_number == b[o + 38]);
        assert!(r.tos == b[o + 39]);
        assert!(r.src_as == be16(b, o + 40));
        assert!(r.dst_as == be16(b, o + 42));
        assert!(r.src_mask == b[o + 44]);
        assert!(r.dst_mask == b[o + 45]);
        assert!(r.pad2 == be16(b, o + 46));
    }};
}

macro_rules! v7_record_asserts {
    ($r:expr, $b:expr, $o:expr) => {{
        let r = $r;
        let b = $b;
        let o: usize = $o;
        assert!(u32::from(r.src_addr) == be32(b, o));
        assert!(u32::from(r.dst_addr) == be32(b, o + 4));
        assert!(u32::from(r.next_hop) == be32(b, o + 8));
        assert!(r.input == be16(b, o + 12));
        assert!(r.output == be16(b, o + 14));
        assert!(r.d_pkts == be32(b, o + 16));
        assert!(r.d_octets == be32(b, o + 20));
        assert!(r.first == be32(b, o + 24));
        assert!(r.last == be32(b, o + 28));
        assert!(r.src_port == be16(b, o + 32));
        assert!(r.dst_port == be16(b, o + 34));
        assert!(r.flags_fields_valid == b[o + 36]);
        assert!(r.tcp_flags == b[o + 37]);
        assert!(r.protocol_number == b[o + 38]);
        assert!(r.tos == b[o + 39]);
        assert!(r.src_as == be16(b, o + 40));
        assert!(r.dst_as == be16(b, o + 42));
        assert!(r.src_mask == b[o + 44]);
        assert!(r.dst_mask == b[o + 45]);
        assert!(r.flags_fields_invalid == be16(b, o + 46));
        assert!(u32::from(r.router_src) == be32(b, o + 48));
    }};
}

/// IANA assigned-internet-protocol-numbers: value carried by the library's name for a
/// protocol number.  The library's enum is `repr(u8)` with the IANA keyword as variant
/// name and the IANA number as discriminant (pinned by `iana_names` below), so
/// "name of n" is "the variant whose discriminant is n" for 0..=144 (assigned),
/// `Unknown` for 145..=254 (145..=252 unassigned, 253/254 experimental) and
/// `Unknown` or `Reserved` for 255.
pub fn iana_ok(n: u8, p: ProtocolTypes) -> bool {
    if n <= 144 {
        p as u8 == n
    } else if n < 255 {
        p == ProtocolTypes::Unknown
    } else {
        p == ProtocolTypes::Unknown || p == ProtocolTypes::Reserved
    }
}

/// C03: complete V5 packet, count <= 2 symbolic, full-length slice with 3 trailing bytes.
#[kani::proof]
#[kani::stub(core::fmt::write, no_fmt)]
fn v5_layout() {
    const N: usize = H + 48 * 2 + 3;
    let b: [u8; N] = kani::any();
    let count = be16(&b, 0);
    kani::assume(count <= 2);
    match V5::parse(&b) {
        Ok((rem, p)) => {
            let used = H + 48 * count as usize;
            assert!(rem.len() == N - used);
            assert!(p.header.version == 5);
            assert!(p.header.count == count);
            assert!(p.header.sys_up_time == be32(&b, 2));
            assert!(p.header.unix_secs == be32(&b, 6));
            assert!(p.header.unix_nsecs == be32(&b, 10));
            assert!(p.header.flow_sequence == be32(&b, 14));
            assert!(p.header.engine_type == b[18]);
            assert!(p.header.engine_id == b[19]);
            assert!(p.header.sampling_interval == be16(&b, 20));
            assert!(p.flowsets.len() == count as usize);
            if count >= 1 {
                v5_record_asserts!(&p.flowsets[0], &b, H);
            }
            if count >= 2 {
                v5_record_asserts!(&p.flowsets[1], &b, H + 48);
            }
            kani::cover!(count == 2);
            core::mem::forget(p);
        }
        Err(e) => {
            assert!(false); // complete packet must decode
            core::mem::forget(e);
        }
    }
}

/// C03 (remainder): every protocol number outside the listed finding.
#[kani::proof]
fn proto_table() {
    let n: u8 = kani::any();
    kani::assume(n != 0 && n != 1 && n != 144);
    assert!(iana_ok(n, ProtocolTypes::from(n)));
    kani::cover!(n == 255);
    kani::cover!(n == 143);
}

/// C03 known-finding witness (known_findings.json: C03-proto-0-1-144).
#[kani::proof]
fn proto_table_kf() {
    let n: u8 = kani::any();
    kani::assume(n == 0 || n == 1 || n == 144);
    assert!(iana_ok(n, ProtocolTypes::from(n)));
}

/// C03: complete V7 packet, count <= 2 symbolic.
#[kani::proof]
#[kani::stub(core::fmt::write, no_fmt)]
fn v7_layout() {
    const N: usize = H + 52 * 2 + 3;
    let b: [u8; N] = kani::any();
    let count = be16(&b, 0);
    kani::assume(count <= 2);
    match V7::parse(&b) {
        Ok((rem, p)) => {
            let used = H + 52 * count as usize;
            assert!(rem.len() == N - used);
            assert!(p.header.version == 7);
            assert!(p.header.count == count);
            assert!(p.header.sys_up_time == be32(&b, 2));
            assert!(p.header.unix_secs == be32(&b, 6));
            assert!(p.header.unix_nsecs == be32(&b, 10));
            assert!(p.header.flow_sequence == be32(&b, 14));
            assert!(p.header.reserved == be32(&b, 18));
            assert!(p.flowsets.len() == count as usize);
            if count >= 1 {
                v7_record_asserts!(&p.flowsets[0], &b, H);
            }
            if count >= 2 {
                v7_record_asserts!(&p.flowsets[1], &b, H + 52);
            }
            kani::cover!(count == 2);
            core::mem::forget(p);
        }
        Err(e) => {
            assert!(false);
            core::mem::forget(e);
        }
    }
}

/// C03: the protocol name attached to a decoded V5/V7 record is ProtocolTypes::from(number)
/// (whose table is decided separately by proto_table / proto_table_kf).
#[kani::proof]
#[kani::stub(core::fmt::write, no_fmt)]
fn v5_v7_proto_name() {
    let b5: [u8; H + 48] = kani::any();
    let b7: [u8; H + 52] = kani::any();
    kani::assume(be16(&b5, 0) == 1 && be16(&b7, 0) == 1);
    match V5::parse(&b5) {
        Ok((_, p)) => {
            assert!(p.flowsets[0].protocol_type == ProtocolTypes::from(b5[H + 38]));
            core::mem::forget(p);
        }
        Err(e) => {
            assert!(false);
            core::mem::forget(e);
        }
    }
    match V7::parse(&b7) {
        Ok((_, p)) => {
            assert!(p.flowsets[0].protocol_type == ProtocolTypes::from(b7[H + 38]));
            core::mem::forget(p);
        }
        Err(e) => {
            assert!(false);
            core::mem::forget(e);
        }
    }
}

/// C03/C14: every cut point. A buffer shorter than 24+48*count is an error, never a
/// packet with fewer records; a complete one is accepted.
#[kani::proof]
#[kani::stub(core::fmt::write, no_fmt)]
fn v5_trunc() {
    const N: usize = H + 48 + 4;
    let b: [u8; N] = kani::any();
    let n: usize = kani::any();
    kani::assume(n <= N);
    let r = V5::parse(&b[..n]);
    if n >= 2 {
        let count = be16(&b, 0) as usize;
        let need = H + 48 * count;
        match &r {
            Ok((rem, p)) => {
                assert!(n >= need);
                assert!(p.flowsets.len() == count);
                assert!(rem.len() == n - need);
            }
            Err(_) => assert!(n < need),
        }
        kani::cover!(r.is_ok() && count == 1);
        kani::cover!(r.is_err() && count == 1 && n == need - 1);
        kani::cover!(r.is_err() && count == 2);
    } else {
        assert!(r.is_err());
    }
    core::mem::forget(r);
}

#[kani::proof]
#[kani::stub(core::fmt::write, no_fmt)]
fn v7_trunc() {
    const N: usize = H + 52 + 4;
    let b: [u8; N] = kani::any();
    let n: usize = kani::any();
    kani::assume(n <= N);
    let r = V7::parse(&b[..n]);
    if n >= 2 {
        let count = be16(&b, 0) as usize;
        let need = H + 52 * count;
        match &r {
            Ok((rem, p)) => {
                assert!(n >= need);
                assert!(p.flowsets.len() == count);
                assert!(rem.len() == n - need);
            }
            Err(_) => assert!(n < need),
        }
        kani::cover!(r.is_ok() && count == 1);
        kani::cover!(r.is_err() && count == 1 && n == need - 1);
        kani::cover!(r.is_err() && count == 2);
    } else {
        assert!(r.is_err());
    }
    core::mem::forget(r);
}

/// C08 (first clause): to_be_bytes(parse(b)) == version || b[..consumed].  The record count
/// is *written* into the buffer (one harness per count) so that every Vec length inside
/// to_be_bytes is a constant; all other bytes are symbolic.
macro_rules! reexport {
    ($name:ident, $ty:ident, $rec:expr, $ver:expr, $count:expr) => {
        #[kani::proof]
        #[kani::stub(core::fmt::write, no_fmt)]
        fn $name() {
            const N: usize = H + $rec * $count + 1;
            let mut b: [u8; N] = kani::any();
            b[0] = 0;
            b[1] = $count as u8;
            match $ty::parse(&b) {
                Ok((rem, p)) => {
                    let used = H + $rec * $count;
                    assert!(rem.len() == 1);
                    let out = p.to_be_bytes();
                    assert!(out.len() == used + 2);
                    assert!(out[0] == 0 && out[1] == $ver);
                    let i: usize = kani::any();
                    if i < used {
                        assert!(out[i + 2] == b[i]);
                    }
                    kani::cover!(i == used - 1);
                    core::mem::forget(out);
                    core::mem::forget(p);
                }
                Err(e) => {
                    assert!(false);
                    core::mem::forget(e);
                }
            }
        }
    };
}
reexport!(v5_reexport_0, V5, 48, 5, 0);
reexport!(v5_reexport_1, V5, 48, 5, 1);
reexport!(v5_reexport_2, V5, 48, 5, 2);
reexport!(v7_reexport_0, V7, 52, 7, 0);
reexport!(v7_reexport_1, V7, 52, 7, 1);
reexport!(v7_reexport_2, V7, 52, 7, 2);

fn any_v5_record() -> v5::FlowSet {
    let pn: u8 = kani::any();
    v5::FlowSet {
        src_addr: std::net::Ipv4Addr::from(kani::any::<u32>()),
        dst_addr: std::net::Ipv4Addr::from(kani::any::<u32>()),
        next_hop: std::net::Ipv4Addr::from(kani::any::<u32>()),
        input: kani::any(),
        output: kani::any(),
        d_pkts: kani::any(),
        d_octets: kani::any(),
        first: kani::any(),
        last: kani::any(),
        src_port: kani::any(),
        dst_port: kani::any(),
        pad1: kani::any(),
        tcp_flags: kani::any(),
        protocol_number: pn,
        protocol_type: ProtocolTypes::from(pn),
        tos: kani::any(),
        src_as: kani::any(),
        dst_as: kani::any(),
        src_mask: kani::any(),
        dst_mask: kani::any(),
        pad2: kani::any(),
    }
}

fn any_v7_record() -> v7::FlowSet {
    let pn: u8 = kani::any();
    v7::FlowSet {
        src_addr: std::net::Ipv4Addr::from(kani::any::<u32>()),
        dst_addr: std::net::Ipv4Addr::from(kani::any::<u32>()),
        next_hop: std::net::Ipv4Addr::from(kani::any::<u32>()),
        input: kani::any(),
        output: kani::any(),
        d_pkts: kani::any(),
        d_octets: kani::any(),
        first: kani::any(),
        last: kani::any(),
        src_port: kani::any(),
        dst_port: kani::any(),
        flags_fields_valid: kani::any(),
        tcp_flags: kani::any(),
        protocol_number: pn,
        protocol_type: ProtocolTypes::from(pn),
        tos: kani::any(),
        src_as: kani::any(),
        dst_as: kani::any(),
        src_mask: kani::any(),
        dst_mask: kani::any(),
        flags_fields_invalid: kani::any(),
        router_src: std::net::Ipv4Addr::from(kani::any::<u32>()),
    }
}

/// C08 (second clause): parse(to_be_bytes(s)) == s for structures with count == records.
#[kani::proof]
#[kani::stub(core::fmt::write, no_fmt)]
fn v5_struct_roundtrip_0() {
    v5_struct_roundtrip_impl(0);
}
#[kani::proof]
#[kani::stub(core::fmt::write, no_fmt)]
fn v5_struct_roundtrip_1() {
    v5_struct_roundtrip_impl(1);
}
#[kani::proof]
#[kani::stub(core::fmt::write, no_fmt)]
fn v5_struct_roundtrip_2() {
    v5_struct_roundtrip_impl(2);
}
fn v5_struct_roundtrip_impl(count: u16) {
    let mut recs = Vec::new();
    if count >= 1 {
        recs.push(any_v5_record());
    }
    if count >= 2 {
        recs.push(any_v5_record());
    }
    let s = V5 {
        header: v5::Header {
            version: 5,
            count,
            sys_up_time: kani::any(),
            unix_secs: kani::any(),
            unix_nsecs: kani::any(),
            flow_sequence: kani::any(),
            engine_type: kani::any(),
            engine_id: kani::any(),
            sampling_interval: kani::any(),
        },
        flowsets: recs,
    };
    let out = s.to_be_bytes();
    assert!(out.len() == 24 + 48 * count as usize);
    assert!(out[0] == 0 && out[1] == 5);
    match V5::parse(&out[2..]) {
        Ok((rem, p)) => {
            assert!(rem.is_empty());
            assert!(p.header == s.header);
            assert!(p.flowsets.len() == count as usize);
            if count >= 1 {
                assert!(p.flowsets[0] == s.flowsets[0]);
            }
            if count >= 2 {
                assert!(p.flowsets[1] == s.flowsets[1]);
            }
            core::mem::forget(p);
        }
        Err(e) => {
            assert!(false);
            core::mem::forget(e);
        }
    }
    core::mem::forget(out);
    core::mem::forget(s);
}

#[kani::proof]
#[kani::stub(core::fmt::write, no_fmt)]
fn v7_struct_roundtrip_0() {
    v7_struct_roundtrip_impl(0);
}
#[kani::proof]
#[kani::stub(core::fmt::write, no_fmt)]
fn v7_struct_roundtrip_1() {
    v7_struct_roundtrip_impl(1);
}
#[kani::proof]
#[kani::stub(core::fmt::write, no_fmt)]
fn v7_struct_roundtrip_2() {
    v7_struct_roundtrip_impl(2);
}
fn v7_struct_roundtrip_impl(count: u16) {
    let mut recs = Vec::new();
    if count >= 1 {
        recs.push(any_v7_record());
    }
    if count >= 2 {
        recs.push(any_v7_record());
    }
    let s = V7 {
        header: v7::Header {
            version: 7,
            count,
            sys_up_time: kani::any(),
            unix_secs: kani::any(),
            unix_nsecs: kani::any(),
            flow_sequence: kani::any(),
            reserved: kani::any(),
        },
        flowsets: recs,
    };
    let out = s.to_be_bytes();
    assert!(out.len() == 24 + 52 * count as usize);
    assert!(out[0] == 0 && out[1] == 7);
    match V7::parse(&out[2..]) {
        Ok((rem, p)) => {
            assert!(rem.is_empty());
            assert!(p.header == s.header);
            assert!(p.flowsets.len() == count as usize);
            if count >= 1 {
                assert!(p.flowsets[0] == s.flowsets[0]);
            }
            if count >= 2 {
                assert!(p.flowsets[1] == s.flowsets[1]);
            }
            core::mem::forget(p);
        }
        Err(e) => {
            assert!(false);
            core::mem::forget(e);
        }
    }
    core::mem::forget(out);
    core::mem::forget(s);
}

/// C13 (V5/V7): the common view copies version, sysUpTime and, per record and in order,
/// addresses, ports, protocol number/name and first/last; MACs are absent.
#[kani::proof]
#[kani::stub(core::fmt::write, no_fmt)]
fn v5_common_0() {
    v5_common_impl(0);
}
#[kani::proof]
#[kani::stub(core::fmt::write, no_fmt)]
fn v5_common_1() {
    v5_common_impl(1);
}
#[kani::proof]
#[kani::stub(core::fmt::write, no_fmt)]
fn v5_common_2() {
    v5_common_impl(2);
}
fn v5_common_impl(count: u16) {
    let mut recs = Vec::new();
    if count >= 1 {
        recs.push(any_v5_record());
    }
    if count >= 2 {
        recs.push(any_v5_record());
    }
    let hdr = v5::Header {
        version: 5,
        count,
        sys_up_time: kani::any(),
        unix_secs: kani::any(),
        unix_nsecs: kani::any(),
        flow_sequence: kani::any(),
        engine_type: kani::any(),
        engine_id: kani::any(),
        sampling_interval: kani::any(),
    };
    let pkt = NetflowPacket::V5(V5 { header: hdr, flowsets: recs });
    match pkt.as_netflow_common() {
        Ok(c) => {
            assert!(c.version == 5);
            assert!(c.timestamp == hdr.sys_up_time);
            assert!(c.flowsets.len() == count as usize);
            if let NetflowPacket::V5(s) = &pkt {
                let i: usize = kani::any();
                if i < count as usize {
                    let (f, r) = (&c.flowsets[i], &s.flowsets[i]);
                    assert!(f.src_addr == Some(std::net::IpAddr::V4(r.src_addr)));
                    assert!(f.dst_addr == Some(std::net::IpAddr::V4(r.dst_addr)));
                    assert!(f.src_port == Some(r.src_port));
                    assert!(f.dst_port == Some(r.dst_port));
                    assert!(f.protocol_number == Some(r.protocol_number));
                    assert!(f.protocol_type == Some(r.protocol_type));
                    assert!(f.first_seen == Some(r.first));
                    assert!(f.last_seen == Some(r.last));
                    assert!(f.src_mac.is_none() && f.dst_mac.is_none());
                }
            }
            core::mem::forget(c);
        }
        Err(e) => {
            assert!(false);
            core::mem::forget(e);
        }
    }
    core::mem::forget(pkt);
}

#[kani::proof]
#[kani::stub(core::fmt::write, no_fmt)]
fn v7_common_0() {
    v7_common_impl(0);
}
#[kani::proof]
#[kani::stub(core::fmt::write, no_fmt)]
fn v7_common_1() {
    v7_common_impl(1);
}
#[kani::proof]
#[kani::stub(core::fmt::write, no_fmt)]
fn v7_common_2() {
    v7_common_impl(2);
}
fn v7_common_impl(count: u16) {
    let mut recs = Vec::new();
    if count >= 1 {
        recs.push(any_v7_record());
    }
    if count >= 2 {
        recs.push(any_v7_record());
    }
    let hdr = v7::Header {
        version: 7,
        count,
        sys_up_time: kani::any(),
        unix_secs: kani::any(),
        unix_nsecs: kani::any(),
        flow_sequence: kani::any(),
        reserved: kani::any(),
    };
    let pkt = NetflowPacket::V7(V7 { header: hdr, flowsets: recs });
    match pkt.as_netflow_common() {
        Ok(c) => {
            assert!(c.version == 7);
            assert!(c.timestamp == hdr.sys_up_time);
            assert!(c.flowsets.len() == count as usize);
            if let NetflowPacket::V7(s) = &pkt {
                let i: usize = kani::any();
                if i < count as usize {
                    let (f, r) = (&c.flowsets[i], &s.flowsets[i]);
                    assert!(f.src_addr == Some(std::net::IpAddr::V4(r.src_addr)));
                    assert!(f.dst_addr == Some(std::net::IpAddr::V4(r.dst_addr)));
                    assert!(f.src_port == Some(r.src_port));
                    assert!(f.dst_port == Some(r.dst_port));
                    assert!(f.protocol_number == Some(r.protocol_number));
                    assert!(f.protocol_type == Some(r.protocol_type));
                    assert!(f.first_seen == Some(r.first));
                    assert!(f.last_seen == Some(r.last));
                    assert!(f.src_mac.is_none() && f.dst_mac.is_none());
                }
            }
            core::mem::forget(c);
        }
        Err(e) => {
            assert!(false);
            core::mem::forget(e);
        }
    }
    core::mem::forget(pkt);
}

/// C13: an Error element converts to an error.
#[kani::proof]
#[kani::stub(core::fmt::write, no_fmt)]
fn error_common() {
    use netflow_parser::{NetflowPacket, NetflowPacketError, NetflowParseError};
    let v: u16 = kani::any();
    let pkt = NetflowPacket::Error(NetflowPacketError {
        error: NetflowParseError::UnallowedVersion(v),
        remaining: Vec::new(),
    });
    let r = pkt.as_netflow_common();
    assert!(r.is_err());
    core::mem::forget(r);
    core::mem::forget(pkt);
}

/// C03 at larger counts ("counts fully materialised"): count written (30, 31, 32) over a
/// buffer of exactly that many patterned records plus 5 trailing bytes, so that symex runs
/// essentially concretely.  Decides that the number of decoded records is header.count, not
/// something capped or rounded, and that the packet ends after 24 + rec*count bytes.
macro_rules! count_n {
    ($name:ident, $ty:ident, $rec:expr, $count:expr) => {
        #[kani::proof]
        #[kani::stub(core::fmt::write, no_fmt)]
        fn $name() {
            const C: usize = $count;
            const N: usize = H + $rec * C + 5;
            let mut b = [0u8; N];
            let mut i = 0;
            while i < N {
                b[i] = (i % 251) as u8;
                i += 1;
            }
            b[0] = (C >> 8) as u8;
            b[1] = C as u8;
            let tail: u8 = kani::any();
            b[N - 1] = tail;
            match $ty::parse(&b) {
                Ok((rem, p)) => {
                    assert!(p.header.count as usize == C);
                    assert!(p.flowsets.len() == C);
                    assert!(rem.len() == 5 && rem[4] == tail);
                    let last = &p.flowsets[C - 1];
                    assert!(last.src_port == be16(&b, H + $rec * (C - 1) + 32));
                    core::mem::forget(p);
                }
                Err(e) => {
                    assert!(false);
                    core::mem::forget(e);
                }
            }
        }
    };
}
count_n!(v5_count_30, V5, 48, 30);
count_n!(v5_count_31, V5, 48, 31);
count_n!(v5_count_300, V5, 48, 300);
count_n!(v7_count_31, V7, 52, 31);
count_n!(v7_count_257, V7, 52, 257);

/// C08 beyond the documented 30 records: a V5 structure with 31 records (count == 31) is
/// exported in full - 24 + 48 * 31 bytes, count as given, the last record at its place.
/// Records carry a concrete pattern (record k has source address k); the header is symbolic.
fn pattern_v5_record(k: u32) -> v5::FlowSet {
    v5::FlowSet {
        src_addr: std::net::Ipv4Addr::from(k),
        dst_addr: std::net::Ipv4Addr::from(0u32),
        next_hop: std::net::Ipv4Addr::from(0u32),
        input: 1,
        output: 2,
        d_pkts: 3,
        d_octets: 4,
        first: 5,
        last: 6,
        src_port: 7,
        dst_port: 8,
        pad1: 0,
        tcp_flags: 9,
        protocol_number: 6,
        protocol_type: ProtocolTypes::from(6u8),
        tos: 0,
        src_as: 10,
        dst_as: 11,
        src_mask: 12,
        dst_mask: 13,
        pad2: 0,
    }
}

#[kani::proof]
#[kani::stub(core::fmt::write, no_fmt)]
fn v5_export_31() {
    const CNT: usize = 31;
    let mut recs = Vec::with_capacity(CNT);
    let mut k = 0usize;
    while k < CNT {
        recs.push(pattern_v5_record(k as u32));
        k += 1;
    }
    let header = v5::Header {
        version: 5,
        count: CNT as u16,
        sys_up_time: kani::any(),
        unix_secs: kani::any(),
        unix_nsecs: kani::any(),
        flow_sequence: kani::any(),
        engine_type: kani::any(),
        engine_id: kani::any(),
        sampling_interval: kani::any(),
    };
    let v = v5::V5 { header, flowsets: recs };
    let out = v.to_be_bytes();
    assert!(out.len() == 24 + 48 * CNT);
    assert!(be16(&out, 2) == CNT as u16);
    assert!(be32(&out, 4) == header.sys_up_time);
    assert!(be32(&out, 24 + 48 * (CNT - 1)) == (CNT - 1) as u32);
    assert!(be16(&out, 24 + 48 * (CNT - 1) + 12) == 1);
    core::mem::forget(out);
    core::mem::forget(v);
}
