//! V5 / V7 fixed-layout harnesses (C03, C08, C13 part, C14 part).
//! Offsets below are transcribed from the Cisco NetFlow export datagram format tables
//! (version 5: 24-byte header + 48-byte records; version 7: 24-byte header + 52-byte
//! records), *not* from the library's struct definitions.
use crate::common::*;
use netflow_parser::protocol::ProtocolTypes;
use netflow_parser::static_versions::v5::{self, V5};
use netflow_parser::static_versions::v7::{self, V7};
use nom_derive::Parse;

// Input to V5::parse / V7::parse starts *after* the 2-byte version field (the dispatcher
// consumed it), so offsets into `b` are Cisco offsets minus 2.
const H: usize = 22; // header bytes after the version field

macro_rules! v5_record_asserts {
    ($r:expr, $b:expr, $o:expr) => {{
        let r = $r;
        let b = $b;
        let o: usize = $o;
        assert!(u32::from(r.src_addr) == be32(b, o));
        assert!(u32::from(r.dst_addr) == be32(b, o + 4));
        assert!(u32::from(r.next_hop) == be32(b, o + 8));
        assert!(r.input == be16(b, o + 12));
        assert!(r.output == be16(b, o + 14));
        assert!(r.d_pkts == be32(b, o + 16));
        assert!(r.d_octets == be32(b, o + 20));
        assert!(r.first == be32(b, o + 24));
        assert!(r.last == be32(b, o + 28));
        assert!(r.src_port == be16(b, o + 32));
        assert!(r.dst_port == be16(b, o + 34));
        assert!(r.pad1 == b[o + 36]);
        assert!(r.tcp_flags == b[o + 37]);
        assert!(r.protocol_number == b[o + 38]);
        assert!(r.tos == b[o + 39]);
        assert!(r.src_as == be16(b, o + 40));
        assert!(r.dst_as == be16(b, o + 42));
        assert!(r.src_mask == b[o + 44]);
        assert!(r.dst_mask == b[o + 45]);
        assert!(r.pad2 == be16(b, o + 46));
    }};
}

macro_rules! v7_record_asserts {
    ($r:expr, $b:expr, $o:expr) => {{
        let r = $r;
        let b = $b;
        let o: usize = $o;
        assert!(u32::from(r.src_addr) == be32(b, o));
        assert!(u32::from(r.dst_addr) == be32(b, o + 4));
        assert!(u32::from(r.next_hop) == be32(b, o + 8));
        assert!(r.input == be16(b, o + 12));
        assert!(r.output == be16(b, o + 14));
        assert!(r.d_pkts == be32(b, o + 16));
        assert!(r.d_octets == be32(b, o + 20));
        assert!(r.first == be32(b, o + 24));
        assert!(r.last == be32(b, o + 28));
        assert!(r.src_port == be16(b, o + 32));
        assert!(r.dst_port == be16(b, o + 34));
        assert!(r.flags_fields_valid == b[o + 36]);
        assert!(r.tcp_flags == b[o + 37]);
        assert!(r.protocol_number == b[o + 38]);
        assert!(r.tos == b[o + 39]);
        assert!(r.src_as == be16(b, o + 40));
        assert!(r.dst_as == be16(b, o + 42));
        assert!(r.src_mask == b[o + 44]);
        assert!(r.dst_mask == b[o + 45]);
        assert!(r.flags_fields_invalid == be16(b, o + 46));
        assert!(u32::from(r.router_src) == be32(b, o + 48));
    }};
}

/// IANA assigned-internet-protocol-numbers: value carried by the library's name for a
/// protocol number.  The library's enum is `repr(u8)` with the IANA keyword as variant
/// name and the IANA number as discriminant (pinned by `iana_names` below), so
/// "name of n" is "the variant whose discriminant is n" for 0..=144 (assigned),
/// `Unknown` for 145..=254 (145..=252 unassigned, 253/254 experimental) and
/// `Unknown` or `Reserved` for 255.
pub fn iana_ok(n: u8, p: ProtocolTypes) -> bool {
    if n <= 144 {
        p as u8 == n
    } else if n < 255 {
        p == ProtocolTypes::Unknown
    } else {
        p == ProtocolTypes::Unknown || p == ProtocolTypes::Reserved
    }
}

/// C03: complete V5 packet, count <= 2 symbolic, full-length slice with 3 trailing bytes.
#[kani::proof]
#[kani::stub(core::fmt::write, no_fmt)]
fn v5_layout() {
    const N: usize = H + 48 * 2 + 3;
    let b: [u8; N] = kani::any();
    let count = be16(&b, 0);
    kani::assume(count <= 2);
    match V5::parse(&b) {
        Ok((rem, p)) => {
            let used = H + 48 * count as usize;
            assert!(rem.len() == N - used);
            assert!(p.header.version == 5);
            assert!(p.header.count == count);
            assert!(p.header.sys_up_time == be32(&b, 2));
            assert!(p.header.unix_secs == be32(&b, 6));
            assert!(p.header.unix_nsecs == be32(&b, 10));
            assert!(p.header.flow_sequence == be32(&b, 14));
            assert!(p.header.engine_type == b[18]);
            assert!(p.header.engine_id == b[19]);
            assert!(p.header.sampling_interval == be16(&b, 20));
            assert!(p.flowsets.len() == count as usize);
            if count >= 1 {
                v5_record_asserts!(&p.flowsets[0], &b, H);
            }
            if count >= 2 {
                v5_record_asserts!(&p.flowsets[1], &b, H + 48);
            }
            kani::cover!(count == 2);
            core::mem::forget(p);
        }
        Err(e) => {
            assert!(false); // complete packet must decode
            core::mem::forget(e);
        }
    }
}

/// C03 (remainder): every protocol number outside the listed finding.
#[kani::proof]
fn proto_table() {
    let n: u8 = kani::any();
    kani::assume(n != 0 && n != 1 && n != 144);
    assert!(iana_ok(n, ProtocolTypes::from(n)));
    kani::cover!(n == 255);
    kani::cover!(n == 143);
}

/// C03 known-finding witness (known_findings.json: C03-proto-0-1-144).
#[kani::proof]
fn proto_table_kf() {
    let n: u8 = kani::any();
    kani::assume(n == 0 || n == 1 || n == 144);
    assert!(iana_ok(n, ProtocolTypes::from(n)));
}
