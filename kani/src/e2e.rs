//! End-to-end histories through `NetflowParser::parse_bytes` with the real decoders
//! (only the field kernel is the exact unsigned model): a template packet followed by a
//! data packet, in one buffer and in two calls.  Structure bytes (versions, lengths,
//! counts, field type 1 / length 2) are written; ids, header words and data are symbolic.
//! Decides the cross-packet clauses of C06 / C07 / C11: the tail of a buffer is decoded by
//! the same parser (template learned from packet 1 governs packet 2), splitting the
//! stream at the packet boundary gives the same results, a data set for an id that was
//! not defined is not decoded.
use crate::common::*;
use crate::km::unsigned_kernel_model;
use netflow_parser::variable_versions::data_number::{DataNumber, FieldValue};
use netflow_parser::variable_versions::{ipfix, v9};
use netflow_parser::{NetflowPacket, NetflowParser};

const I1: usize = 16 + 12; // IPFIX message 1: header + template set (1 record, 1 specifier)
const I2: usize = 16 + 4 + 4; // IPFIX message 2: header + data set with two 2-byte records

fn ipfix_history() -> ([u8; I1 + I2], u16, u16) {
    let mut b: [u8; I1 + I2] = kani::any();
    // message 1
    b[0] = 0;
    b[1] = 10;
    put16(&mut b, 2, I1 as u16);
    put16(&mut b, 16, 2);
    put16(&mut b, 18, 12);
    let tid = be16(&b, 20);
    put16(&mut b, 22, 1);
    put16(&mut b, 24, 1);
    put16(&mut b, 26, 2);
    // message 2
    b[I1] = 0;
    b[I1 + 1] = 10;
    put16(&mut b, I1 + 2, I2 as u16);
    let did = be16(&b, I1 + 16);
    put16(&mut b, I1 + 18, 8);
    (b, tid, did)
}

fn check_ipfix_results(r: &Vec<NetflowPacket>, b: &[u8; I1 + I2], tid: u16, did: u16) {
    assert!(r.len() == 2);
    match &r[0] {
        NetflowPacket::IPFix(m) => {
            assert!(m.header.export_time == be32(b, 4));
            assert!(m.flowsets.len() == 1);
            match &m.flowsets[0].body {
                ipfix::FlowSetBody::Template(t) => assert!(t.template_id == tid && t.fields.len() == 1),
                _ => assert!(false),
            }
        }
        _ => assert!(false),
    }
    match &r[1] {
        NetflowPacket::IPFix(m) => {
            assert!(m.header.export_time == be32(b, I1 + 4));
            if did == tid {
                assert!(m.flowsets.len() == 1);
                match &m.flowsets[0].body {
                    ipfix::FlowSetBody::Data(d) => {
                        assert!(d.fields.len() == 2);
                        let (_, v0) = d.fields[0].get(&0).unwrap();
                        let (_, v1) = d.fields[1].get(&0).unwrap();
                        assert!(*v0 == FieldValue::DataNumber(DataNumber::U16(be16(b, I1 + 20))));
                        assert!(*v1 == FieldValue::DataNumber(DataNumber::U16(be16(b, I1 + 22))));
                    }
                    _ => assert!(false),
                }
            } else {
                // C07: data for an id that was never defined is not decoded
                assert!(m.flowsets.len() == 0);
            }
        }
        _ => assert!(false),
    }
}

/// One call with both messages.
#[kani::proof]
#[kani::stub(core::fmt::write, no_fmt)]
#[kani::stub(netflow_parser::variable_versions::data_number::FieldValue::from_field_type, unsigned_kernel_model)]
fn e2e_ipfix_chained() {
    let (b, tid, did) = ipfix_history();
    kani::assume(tid > 255 && did > 255);
    let mut p = NetflowParser::default();
    let r = p.parse_bytes(&b);
    check_ipfix_results(&r, &b, tid, did);
    assert!(p.ipfix_parser.templates.len() == 1 && p.ipfix_parser.templates.contains_key(&tid));
    assert!(p.v9_parser.templates.len() == 0);
    kani::cover!(did == tid);
    kani::cover!(did != tid);
    core::mem::forget(r);
    core::mem::forget(p);
}

/// Two calls, one message each, same parser.
#[kani::proof]
#[kani::stub(core::fmt::write, no_fmt)]
#[kani::stub(netflow_parser::variable_versions::data_number::FieldValue::from_field_type, unsigned_kernel_model)]
fn e2e_ipfix_split() {
    let (b, tid, did) = ipfix_history();
    kani::assume(tid > 255 && did > 255);
    let mut p = NetflowParser::default();
    let mut r = p.parse_bytes(&b[..I1]);
    let r2 = p.parse_bytes(&b[I1..]);
    assert!(r.len() == 1 && r2.len() == 1);
    r.extend(r2);
    check_ipfix_results(&r, &b, tid, did);
    kani::cover!(did == tid);
    core::mem::forget(r);
    core::mem::forget(p);
}

/// A second parser instance never sees what the first one learned (C06).
#[kani::proof]
#[kani::stub(core::fmt::write, no_fmt)]
#[kani::stub(netflow_parser::variable_versions::data_number::FieldValue::from_field_type, unsigned_kernel_model)]
fn e2e_ipfix_two_parsers() {
    let (b, tid, did) = ipfix_history();
    kani::assume(tid > 255 && did == tid);
    let mut p = NetflowParser::default();
    let mut q = NetflowParser::default();
    let r = p.parse_bytes(&b[..I1]);
    let r2 = q.parse_bytes(&b[I1..]);
    assert!(r2.len() == 1);
    match &r2[0] {
        NetflowPacket::IPFix(m) => assert!(m.flowsets.len() == 0),
        _ => assert!(false),
    }
    assert!(q.ipfix_parser.templates.len() == 0);
    core::mem::forget(r);
    core::mem::forget(r2);
    core::mem::forget(p);
    core::mem::forget(q);
}

const V1: usize = 20 + 4 + 8; // V9 packet 1: header + template flowset (1 record, 1 field)
const V2: usize = 20 + 4 + 4; // V9 packet 2: header + data flowset with two 2-byte records

fn v9_history() -> ([u8; V1 + V2], u16, u16) {
    let mut b: [u8; V1 + V2] = kani::any();
    b[0] = 0;
    b[1] = 9;
    put16(&mut b, 2, 1);
    put16(&mut b, 20, 0);
    put16(&mut b, 22, 12);
    let tid = be16(&b, 24);
    put16(&mut b, 26, 1);
    put16(&mut b, 28, 1);
    put16(&mut b, 30, 2);
    b[V1] = 0;
    b[V1 + 1] = 9;
    put16(&mut b, V1 + 2, 1);
    let did = be16(&b, V1 + 20);
    put16(&mut b, V1 + 22, 8);
    (b, tid, did)
}

fn check_v9_results(r: &Vec<NetflowPacket>, b: &[u8; V1 + V2], tid: u16, did: u16) {
    assert!(r.len() == 2);
    match &r[0] {
        NetflowPacket::V9(m) => {
            assert!(m.header.sys_up_time == be32(b, 4));
            assert!(m.flowsets.len() == 1);
            match &m.flowsets[0].body {
                v9::FlowSetBody::Template(t) => assert!(t.templates.len() == 1 && t.templates[0].template_id == tid),
                _ => assert!(false),
            }
        }
        _ => assert!(false),
    }
    if did == tid {
        match &r[1] {
            NetflowPacket::V9(m) => {
                assert!(m.header.sys_up_time == be32(b, V1 + 4));
                assert!(m.flowsets.len() == 1);
                match &m.flowsets[0].body {
                    v9::FlowSetBody::Data(d) => {
                        assert!(d.fields.len() == 2 && d.padding.len() == 0);
                        let (_, v0) = d.fields[0].get(&0).unwrap();
                        let (_, v1) = d.fields[1].get(&0).unwrap();
                        assert!(*v0 == FieldValue::DataNumber(DataNumber::U16(be16(b, V1 + 24))));
                        assert!(*v1 == FieldValue::DataNumber(DataNumber::U16(be16(b, V1 + 26))));
                    }
                    _ => assert!(false),
                }
            }
            _ => assert!(false),
        }
    } else {
        // C07: a V9 packet with data for an undefined id is reported as an error,
        // whose remaining bytes are that packet
        match &r[1] {
            NetflowPacket::Error(e) => assert!(e.remaining.len() == V2 && e.remaining[1] == 9),
            _ => assert!(false),
        }
    }
}

#[kani::proof]
#[kani::stub(core::fmt::write, no_fmt)]
#[kani::stub(netflow_parser::variable_versions::data_number::FieldValue::from_field_type, unsigned_kernel_model)]
fn e2e_v9_chained() {
    let (b, tid, did) = v9_history();
    kani::assume(tid > 255 && did > 255);
    let mut p = NetflowParser::default();
    let r = p.parse_bytes(&b);
    check_v9_results(&r, &b, tid, did);
    assert!(p.v9_parser.templates.len() == 1 && p.v9_parser.templates.contains_key(&tid));
    assert!(p.ipfix_parser.templates.len() == 0);
    kani::cover!(did == tid);
    kani::cover!(did != tid);
    core::mem::forget(r);
    core::mem::forget(p);
}

#[kani::proof]
#[kani::stub(core::fmt::write, no_fmt)]
#[kani::stub(netflow_parser::variable_versions::data_number::FieldValue::from_field_type, unsigned_kernel_model)]
fn e2e_v9_split() {
    let (b, tid, did) = v9_history();
    kani::assume(tid > 255 && did > 255);
    let mut p = NetflowParser::default();
    let mut r = p.parse_bytes(&b[..V1]);
    let r2 = p.parse_bytes(&b[V1..]);
    assert!(r.len() == 1 && r2.len() == 1);
    r.extend(r2);
    check_v9_results(&r, &b, tid, did);
    kani::cover!(did == tid);
    core::mem::forget(r);
    core::mem::forget(p);
}

/// Protocol scoping (C06): a template learned from a V9 packet does not govern an IPFIX
/// data set of the same id.
#[kani::proof]
#[kani::stub(core::fmt::write, no_fmt)]
#[kani::stub(netflow_parser::variable_versions::data_number::FieldValue::from_field_type, unsigned_kernel_model)]
fn e2e_v9_template_ipfix_data() {
    let mut b: [u8; V1 + I2] = kani::any();
    b[0] = 0;
    b[1] = 9;
    put16(&mut b, 2, 1);
    put16(&mut b, 20, 0);
    put16(&mut b, 22, 12);
    let tid = be16(&b, 24);
    kani::assume(tid > 255);
    put16(&mut b, 26, 1);
    put16(&mut b, 28, 1);
    put16(&mut b, 30, 2);
    b[V1] = 0;
    b[V1 + 1] = 10;
    put16(&mut b, V1 + 2, I2 as u16);
    put16(&mut b, V1 + 16, tid);
    put16(&mut b, V1 + 18, 8);
    let mut p = NetflowParser::default();
    let r = p.parse_bytes(&b);
    assert!(r.len() == 2);
    match &r[1] {
        NetflowPacket::IPFix(m) => assert!(m.flowsets.len() == 0),
        _ => assert!(false),
    }
    assert!(p.ipfix_parser.templates.len() == 0 && p.ipfix_parser.options_templates.len() == 0);
    assert!(p.v9_parser.templates.len() == 1);
    core::mem::forget(r);
    core::mem::forget(p);
}
