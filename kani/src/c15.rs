//! C15 (cost): "no count or length field causes allocation or work for bytes that are not
//! present in the buffer".
//!
//! Heap requests are made observable by an *accounting model of the Rust global allocator*:
//! the driver links `vlib/kani_lib_acct.c` (Kani's own `kani_lib.c` plus three counters)
//! instead of `kani_lib.c`, so every `__rust_alloc` / `__rust_alloc_zeroed` /
//! `__rust_realloc` the real code performs adds the requested size to `VERIF_ALLOC_TOTAL`.
//! Under concrete playback (native build) a counting `#[global_allocator]` updates the same
//! statics, so a solver counterexample is confirmed against the real allocator traffic.
//!
//! Every harness gives a *short* buffer whose count / length fields announce far more than is
//! present (V5/V7 count and the field kernels' declared length: symbolic over the whole 16-bit
//! range; V9/IPFIX counts and lengths: written extreme values, because a symbolic
//! `Vec::with_capacity` size that is subsequently written to exhausts SAT conversion) and asserts
//!     largest single request <= 64 KiB          (nom's documented pre-allocation cap)
//!     total requested        <= 64 KiB + 8 * len + SLACK
//! i.e. a constant plus a fixed multiple of the bytes that are really there.  The unwinding
//! assertions (kept on) bound the *work*: a loop that iterates per announced-but-absent
//! element does not exit within the bound and the run is reported, not passed.
use crate::common::*;
use netflow_parser::static_versions::{v5, v7};
use netflow_parser::variable_versions::data_number::FieldValue;
use netflow_parser::variable_versions::{ipfix, v9};
use netflow_parser::{NetflowPacket, NetflowParseError, NetflowParser, ParsedNetflow, PartialParse};

#[no_mangle]
pub static mut VERIF_ALLOC_TOTAL: usize = 0;
#[no_mangle]
pub static mut VERIF_ALLOC_CALLS: usize = 0;
#[no_mangle]
pub static mut VERIF_ALLOC_MAX: usize = 0;

#[cfg(test)]
mod native_alloc {
    //! concrete playback only: the real system allocator with the same accounting
    use std::alloc::{GlobalAlloc, Layout, System};
    pub struct Counting;
    unsafe fn account(n: usize) {
        super::VERIF_ALLOC_TOTAL += n;
        super::VERIF_ALLOC_CALLS += 1;
        if n > super::VERIF_ALLOC_MAX {
            super::VERIF_ALLOC_MAX = n;
        }
    }
    unsafe impl GlobalAlloc for Counting {
        unsafe fn alloc(&self, l: Layout) -> *mut u8 {
            account(l.size());
            System.alloc(l)
        }
        unsafe fn alloc_zeroed(&self, l: Layout) -> *mut u8 {
            account(l.size());
            System.alloc_zeroed(l)
        }
        unsafe fn dealloc(&self, p: *mut u8, l: Layout) {
            System.dealloc(p, l)
        }
        unsafe fn realloc(&self, p: *mut u8, l: Layout, n: usize) -> *mut u8 {
            account(n);
            System.realloc(p, l, n)
        }
    }
    #[global_allocator]
    static A: Counting = Counting;
}

pub const CAP: usize = 65536;
pub const SLACK: usize = 512;

#[inline(always)]
pub fn reset() {
    unsafe {
        VERIF_ALLOC_TOTAL = 0;
        VERIF_ALLOC_CALLS = 0;
        VERIF_ALLOC_MAX = 0;
    }
}
#[inline(always)]
pub fn total() -> usize {
    unsafe { VERIF_ALLOC_TOTAL }
}
#[inline(always)]
pub fn largest() -> usize {
    unsafe { VERIF_ALLOC_MAX }
}
#[inline(always)]
pub fn calls() -> usize {
    unsafe { VERIF_ALLOC_CALLS }
}

#[inline(always)]
fn bounded(len: usize) {
    assert!(largest() <= CAP);
    assert!(total() <= CAP + 8 * len + SLACK);
}

/// V5 / V7 header announcing any number of records over a buffer that holds none
/// (22 header bytes after the version + `$extra` bytes, less than one record).
macro_rules! c15_fixed_count {
    ($name:ident, $parser:path, $extra:expr) => {
        #[kani::proof]
        #[kani::stub(core::fmt::write, no_fmt)]
        fn $name() {
            const N: usize = 22 + $extra;
            let b: [u8; N] = kani::any();
            let count = be16(&b, 0);
            reset();
            let r = <$parser>::parse(&b);
            kani::cover!(count == 65535 && r.is_err());
            kani::cover!(count == 0 && r.is_ok());
            assert!(calls() > 0);
            bounded(N);
            core::mem::forget(r);
        }
    };
}
c15_fixed_count!(c15_v5_count, v5::V5Parser, 5);
c15_fixed_count!(c15_v7_count, v7::V7Parser, 5);

/// V9 header announcing `$count` flowsets (written), 3 stray bytes follow.
macro_rules! c15_v9_count {
    ($name:ident, $count:expr) => {
        #[kani::proof]
        #[kani::stub(core::fmt::write, no_fmt)]
        fn $name() {
            const N: usize = 18 + 3;
            let mut b: [u8; N] = kani::any();
            put16(&mut b, 0, $count);
            let mut p = v9::V9Parser::default();
            reset();
            let r = p.parse(&b);
            assert!(r.is_err());
            assert!(calls() > 0);
            assert!(total() <= 8 * N + SLACK);
            core::mem::forget(r);
            core::mem::forget(p);
        }
    };
}
c15_v9_count!(c15_v9_count_max, 65535);
c15_v9_count!(c15_v9_count_4097, 4097);

/// V9 header announcing 32 flowsets over a buffer that ends with the header: nothing is
/// pre-allocated per announced flowset (32 x size_of::<FlowSet>() = 2.5 KB already exceeds
/// 8 x 18 + 512 bytes),
/// the packet is accepted with no flowsets.  (With stray bytes behind the header the second
/// iteration of the flowset loop makes symex explore the whole decoder on a merged slice and
/// the run does not finish; the bare header keeps every iteration trivial.)
#[kani::proof]
#[kani::stub(core::fmt::write, no_fmt)]
fn c15_v9_count_32_bare() {
    const N: usize = 18;
    let mut b: [u8; N] = kani::any();
    put16(&mut b, 0, 32);
    let mut p = v9::V9Parser::default();
    reset();
    let r = p.parse(&b);
    assert!(r.is_ok());
    assert!(largest() <= 8 * N + SLACK);
    assert!(total() <= 8 * N + SLACK);
    core::mem::forget(r);
    core::mem::forget(p);
}

/// V9 template flowset (id 0, length written = 4 + body) whose single template record
/// announces `$fc` fields (written) over a body holding exactly one field.
macro_rules! c15_v9_template_field_count {
    ($name:ident, $fc:expr) => {
        #[kani::proof]
        #[kani::stub(core::fmt::write, no_fmt)]
        fn $name() {
            const BODY: usize = 8;
            const N: usize = 4 + BODY;
            let mut b: [u8; N] = kani::any();
            put16(&mut b, 0, 0);
            put16(&mut b, 2, N as u16);
            put16(&mut b, 6, $fc);
            let mut p = v9::V9Parser::default();
            reset();
            let r = v9::FlowSet::parse(&b, &mut p);
            kani::cover!(r.is_ok());
            bounded(N);
            core::mem::forget(r);
            core::mem::forget(p);
        }
    };
}
c15_v9_template_field_count!(c15_v9_template_field_count_max, 65535);
c15_v9_template_field_count!(c15_v9_template_field_count_4097, 4097);

/// V9 options-template flowset (id 1) announcing scope / option lengths (written) over a 10-byte body.
macro_rules! c15_v9_options_template_lengths {
    ($name:ident, $sl:expr, $ol:expr) => {
        #[kani::proof]
        #[kani::stub(core::fmt::write, no_fmt)]
        fn $name() {
            const BODY: usize = 10;
            const N: usize = 4 + BODY;
            let mut b: [u8; N] = kani::any();
            put16(&mut b, 0, 1);
            put16(&mut b, 2, N as u16);
            put16(&mut b, 6, $sl);
            put16(&mut b, 8, $ol);
            let mut p = v9::V9Parser::default();
            reset();
            let r = v9::FlowSet::parse(&b, &mut p);
            kani::cover!(r.is_ok());
            assert!(largest() <= CAP);
            assert!(total() <= 2 * CAP + 8 * N + SLACK);
            core::mem::forget(r);
            core::mem::forget(p);
        }
    };
}
c15_v9_options_template_lengths!(c15_v9_options_template_lengths_max, 65535, 65535);
c15_v9_options_template_lengths!(c15_v9_options_template_lengths_4_max, 4, 65535);

/// V9 flowset announcing the maximal length over 6 available bytes, per id class.
macro_rules! c15_v9_flowset_length {
    ($name:ident, $id:expr) => {
        #[kani::proof]
        #[kani::stub(core::fmt::write, no_fmt)]
        fn $name() {
            const N: usize = 6;
            let mut b: [u8; N] = kani::any();
            put16(&mut b, 0, $id);
            put16(&mut b, 2, 65535);
            let mut p = v9::V9Parser::default();
            reset();
            let r = v9::FlowSet::parse(&b, &mut p);
            assert!(r.is_err());
            assert!(total() == 0);
            core::mem::forget(r);
            core::mem::forget(p);
        }
    };
}
c15_v9_flowset_length!(c15_v9_flowset_length_t, 0);
c15_v9_flowset_length!(c15_v9_flowset_length_o, 1);
c15_v9_flowset_length!(c15_v9_flowset_length_d, 300);

/// IPFIX message announcing the maximal length over a 16-byte header + 4 bytes.
#[kani::proof]
#[kani::stub(core::fmt::write, no_fmt)]
fn c15_ipfix_length() {
    const N: usize = 14 + 4;
    let mut b: [u8; N] = kani::any();
    put16(&mut b, 0, 65535);
    let mut p = ipfix::IPFixParser::default();
    reset();
    let r = p.parse(&b);
    assert!(r.is_err());
    assert!(total() <= 8 * N + SLACK);
    core::mem::forget(r);
    core::mem::forget(p);
}

/// IPFIX template set (id 2) whose record announces `$fc` fields (written) over a body with one.
macro_rules! c15_ipfix_template_field_count {
    ($name:ident, $fc:expr) => {
        #[kani::proof]
        #[kani::stub(core::fmt::write, no_fmt)]
        fn $name() {
            const BODY: usize = 8;
            const N: usize = 4 + BODY;
            let mut b: [u8; N] = kani::any();
            put16(&mut b, 0, 2);
            put16(&mut b, 2, N as u16);
            put16(&mut b, 6, $fc);
            b[8] &= 0x7f; // plain specifier
            let mut p = ipfix::IPFixParser::default();
            reset();
            let r = ipfix::FlowSet::parse(&b, &mut p);
            bounded(N);
            core::mem::forget(r);
            core::mem::forget(p);
        }
    };
}
c15_ipfix_template_field_count!(c15_ipfix_template_field_count_max, 65535);
c15_ipfix_template_field_count!(c15_ipfix_template_field_count_1, 1);

/// IPFIX options-template set (id 3) announcing field / scope counts (written) over a 10-byte body.
macro_rules! c15_ipfix_options_template_counts {
    ($name:ident, $fc:expr, $sc:expr) => {
        #[kani::proof]
        #[kani::stub(core::fmt::write, no_fmt)]
        fn $name() {
            const BODY: usize = 10;
            const N: usize = 4 + BODY;
            let mut b: [u8; N] = kani::any();
            put16(&mut b, 0, 3);
            put16(&mut b, 2, N as u16);
            put16(&mut b, 6, $fc);
            put16(&mut b, 8, $sc);
            b[10] &= 0x7f;
            let mut p = ipfix::IPFixParser::default();
            reset();
            let r = ipfix::FlowSet::parse(&b, &mut p);
            bounded(N);
            core::mem::forget(r);
            core::mem::forget(p);
        }
    };
}
c15_ipfix_options_template_counts!(c15_ipfix_options_template_counts_max, 65535, 65535);
c15_ipfix_options_template_counts!(c15_ipfix_options_template_counts_max_1, 65535, 1);

/// Field kernels: a field of any declared length (0..=65535) over at most 5 available bytes
/// requests at most a fixed multiple of the bytes present.
macro_rules! c15_kernel {
    ($name:ident, $ft:expr) => {
        #[kani::proof]
        #[kani::stub(core::fmt::write, no_fmt)]
        fn $name() {
            let data: [u8; 5] = kani::any();
            let avail: usize = kani::any();
            kani::assume(avail <= 5);
            let declared: u16 = kani::any();
            reset();
            let r = FieldValue::from_field_type(&data[..avail], $ft, declared);
            kani::cover!(declared == 65535 && r.is_err());
            kani::cover!(declared as usize == avail && r.is_ok());
            assert!(total() <= 8 * avail + 64);
            core::mem::forget(r);
        }
    };
}
c15_kernel!(c15_kernel_vec, netflow_parser::variable_versions::data_number::FieldDataType::Vec);
c15_kernel!(c15_kernel_string, netflow_parser::variable_versions::data_number::FieldDataType::String);
