//! Kani harnesses for netflow_parser (out-of-tree; path dependency on /repo, so every
//! run re-compiles /repo's current working tree).  See /verif/DESIGN.md.
#![allow(dead_code, unused_imports, unused_variables, unused_mut, clippy::all)]

#[cfg(kani)]
pub mod common;
#[cfg(kani)]
pub mod fixed;
#[cfg(kani)]
pub mod k;
#[cfg(kani)]
pub mod s9;
#[cfg(kani)]
pub mod d9;
#[cfg(kani)]
pub mod w;
#[cfg(kani)]
pub mod x;
#[cfg(kani)]
pub mod s10;
#[cfg(kani)]
pub mod d10;
#[cfg(kani)]
pub mod p;
#[cfg(kani)]
pub mod ser;
#[cfg(kani)]
pub mod cv;
#[cfg(kani)]
pub mod e2e;
#[cfg(kani)]
pub mod c15;
