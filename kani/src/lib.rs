//! Kani harnesses for netflow_parser (out-of-tree; path dependency on /repo, so every
//! run re-compiles /repo's current working tree).  See /verif/DESIGN.md.
//!
//! One cargo feature per harness module (`m_<module>`): the driver builds only the module a
//! harness lives in, so a change of /repo that alters the signature of an internal function
//! breaks the build of the modules that call it and of nothing else (the end-to-end and
//! parse_bytes-level harnesses use the public API only).
#![allow(dead_code, unused_imports, unused_variables, unused_mut, clippy::all)]

#[cfg(kani)]
pub mod common;
#[cfg(kani)]
pub mod km;
#[cfg(all(kani, feature = "m_fixed"))]
pub mod fixed;
#[cfg(all(kani, feature = "m_k"))]
pub mod k;
#[cfg(all(kani, feature = "m_s9"))]
pub mod s9;
#[cfg(all(kani, feature = "m_d9"))]
pub mod d9;
#[cfg(all(kani, feature = "m_w"))]
pub mod w;
#[cfg(all(kani, feature = "m_x"))]
pub mod x;
#[cfg(all(kani, feature = "m_s10"))]
pub mod s10;
#[cfg(all(kani, feature = "m_d10"))]
pub mod d10;
#[cfg(all(kani, feature = "m_p"))]
pub mod p;
#[cfg(all(kani, feature = "m_ser"))]
pub mod ser;
#[cfg(all(kani, feature = "m_cv"))]
pub mod cv;
#[cfg(all(kani, feature = "m_e2e"))]
pub mod e2e;
#[cfg(all(kani, feature = "m_c15"))]
pub mod c15;
#[cfg(all(kani, feature = "m_h"))]
pub mod h;
