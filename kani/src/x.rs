use crate::common::*;
use crate::w::*;
use netflow_parser::{NetflowPacket, NetflowParser};

#[kani::proof]
#[kani::stub(core::fmt::write, no_fmt)]
#[kani::stub(netflow_parser::static_versions::v5::V5Parser::parse, v5_model)]
#[kani::stub(netflow_parser::static_versions::v7::V7Parser::parse, v7_model)]
#[kani::stub(netflow_parser::variable_versions::v9::V9Parser::parse, v9_model)]
#[kani::stub(netflow_parser::variable_versions::ipfix::IPFixParser::parse, ipfix_model)]
fn x1() {
    let mut buf: [u8; 24] = kani::any();
    buf[0] = 0; buf[1] = 5; buf[2] = 0; buf[3] = 0;
    let mut p = NetflowParser::default();
    let r = p.parse_bytes(&buf);
    assert!(r.len() == 1);
    core::mem::forget(r);
    core::mem::forget(p);
}

#[kani::proof]
#[kani::stub(core::fmt::write, no_fmt)]
#[kani::stub(netflow_parser::static_versions::v5::V5Parser::parse, v5_model)]
#[kani::stub(netflow_parser::static_versions::v7::V7Parser::parse, v7_model)]
#[kani::stub(netflow_parser::variable_versions::v9::V9Parser::parse, v9_model)]
#[kani::stub(netflow_parser::variable_versions::ipfix::IPFixParser::parse, ipfix_model)]
fn x2() {
    let mut buf: [u8; 40] = kani::any();
    buf[0] = 0; buf[1] = 5; buf[2] = 0; buf[3] = 0;
    buf[24] = 0; buf[25] = 10; buf[26] = 0; buf[27] = 16;
    let mut p = NetflowParser::default();
    let r = p.parse_bytes(&buf);
    assert!(r.len() == 2);
    core::mem::forget(r);
    core::mem::forget(p);
}
#[kani::proof]
#[kani::stub(core::fmt::write, no_fmt)]
#[kani::stub(netflow_parser::static_versions::v5::V5Parser::parse, v5_model)]
#[kani::stub(netflow_parser::static_versions::v7::V7Parser::parse, v7_model)]
#[kani::stub(netflow_parser::variable_versions::v9::V9Parser::parse, v9_model)]
#[kani::stub(netflow_parser::variable_versions::ipfix::IPFixParser::parse, ipfix_model)]
fn x3() {
    let mut buf: [u8; 40] = kani::any();
    buf[0] = 0; buf[1] = 5; buf[2] = 0; buf[3] = 0;
    buf[24] = 0; buf[25] = 10; buf[26] = 0; buf[27] = 16;
    let allowed: [u16; 3] = kani::any();
    let mut p = NetflowParser::default();
    p.allowed_versions = allowed.into();
    let r = p.parse_bytes(&buf);
    assert!(r.len() <= 2);
    core::mem::forget(r);
    core::mem::forget(p);
}
#[kani::proof]
#[kani::stub(core::fmt::write, no_fmt)]
#[kani::stub(netflow_parser::static_versions::v5::V5Parser::parse, v5_model)]
#[kani::stub(netflow_parser::static_versions::v7::V7Parser::parse, v7_model)]
#[kani::stub(netflow_parser::variable_versions::v9::V9Parser::parse, v9_model)]
#[kani::stub(netflow_parser::variable_versions::ipfix::IPFixParser::parse, ipfix_model)]
fn x4() {
    let mut buf: [u8; 40] = kani::any();
    buf[0] = 0; buf[1] = 5; buf[2] = 0; buf[3] = 0;
    buf[24] = 0; buf[25] = 10; buf[26] = 0; buf[27] = 16;
    let mut p = NetflowParser::default();
    let r = p.parse_bytes(&buf);
    assert!(r.len() == 2);
    assert!(version_of(&r[0]) == 5);
    assert!(version_of(&r[1]) == 10);
    assert!(word_of(&r[1]) == be32(&buf, 28));
    core::mem::forget(r);
    core::mem::forget(p);
}
#[kani::proof]
#[kani::stub(core::fmt::write, no_fmt)]
#[kani::stub(netflow_parser::static_versions::v5::V5Parser::parse, v5_model)]
#[kani::stub(netflow_parser::static_versions::v7::V7Parser::parse, v7_model)]
#[kani::stub(netflow_parser::variable_versions::v9::V9Parser::parse, v9_model)]
#[kani::stub(netflow_parser::variable_versions::ipfix::IPFixParser::parse, ipfix_model)]
fn x5() {
    let mut buf: [u8; 41] = kani::any();
    buf[0] = 0; buf[1] = 5; buf[2] = 0; buf[3] = 0;
    buf[24] = 0; buf[25] = 10; buf[26] = 0; buf[27] = 16;
    let mut p = NetflowParser::default();
    let r = p.parse_bytes(&buf);
    assert!(r.len() == 3);
    match &r[2] {
        NetflowPacket::Error(e) => { assert!(e.remaining.len() == 1 && e.remaining[0] == buf[40]); }
        _ => assert!(false),
    }
    core::mem::forget(r);
    core::mem::forget(p);
}
#[kani::proof]
#[kani::stub(core::fmt::write, no_fmt)]
#[kani::stub(netflow_parser::static_versions::v5::V5Parser::parse, v5_model)]
#[kani::stub(netflow_parser::static_versions::v7::V7Parser::parse, v7_model)]
#[kani::stub(netflow_parser::variable_versions::v9::V9Parser::parse, v9_model)]
#[kani::stub(netflow_parser::variable_versions::ipfix::IPFixParser::parse, ipfix_model)]
fn x6() {
    let buf: [u8; 1] = kani::any();
    let mut p = NetflowParser::default();
    let r = p.parse_bytes(&buf);
    assert!(r.len() == 1);
    core::mem::forget(r);
    core::mem::forget(p);
}
#[kani::proof]
#[kani::stub(core::fmt::write, no_fmt)]
#[kani::stub(netflow_parser::static_versions::v5::V5Parser::parse, v5_model)]
#[kani::stub(netflow_parser::static_versions::v7::V7Parser::parse, v7_model)]
#[kani::stub(netflow_parser::variable_versions::v9::V9Parser::parse, v9_model)]
#[kani::stub(netflow_parser::variable_versions::ipfix::IPFixParser::parse, ipfix_model)]
fn x7() {
    let mut buf: [u8; 3] = kani::any();
    buf[0] = 1; buf[1] = 1;
    let mut p = NetflowParser::default();
    p.allowed_versions.insert(0x0101);
    let r = p.parse_bytes(&buf);
    assert!(r.len() == 1);
    core::mem::forget(r);
    core::mem::forget(p);
}

#[kani::proof]
#[kani::stub(core::fmt::write, no_fmt)]
fn x_entry_sorted() {
    use netflow_parser::variable_versions::ipfix::{Template, TemplateField};
    use netflow_parser::variable_versions::ipfix_lookup::IPFixField;
    use netflow_parser::verif_shim::VMap;
    let mut m: VMap<u16, Template> = VMap::new();
    let c0: u16 = kani::any();
    m.insert(c0, Template { template_id: c0, field_count: 1, fields: vec![TemplateField { field_type_number: 1, field_type: IPFixField::OctetDeltaCount, field_length: kani::any(), enterprise_number: None }], padding: vec![] });
    let k: u16 = kani::any();
    let t = Template { template_id: k, field_count: 0, fields: vec![], padding: vec![] };
    m.entry(k).or_insert_with(|| t.clone());
    assert!(m.contains_key(&k));
    assert!(m.len() == if k == c0 { 1 } else { 2 });
    core::mem::forget(m);
    core::mem::forget(t);
}

#[kani::proof]
#[kani::stub(core::fmt::write, no_fmt)]
fn x_entry_unsorted() {
    use netflow_parser::variable_versions::ipfix::{Template, TemplateField};
    use netflow_parser::variable_versions::ipfix_lookup::IPFixField;
    use netflow_parser::verif_shim::VHashMap;
    let mut m: VHashMap<u16, Template> = VHashMap::new();
    let c0: u16 = kani::any();
    m.insert(c0, Template { template_id: c0, field_count: 1, fields: vec![TemplateField { field_type_number: 1, field_type: IPFixField::OctetDeltaCount, field_length: kani::any(), enterprise_number: None }], padding: vec![] });
    let k: u16 = kani::any();
    let t = Template { template_id: k, field_count: 0, fields: vec![], padding: vec![] };
    m.entry(k).or_insert_with(|| t.clone());
    assert!(m.contains_key(&k));
    assert!(m.len() == if k == c0 { 1 } else { 2 });
    core::mem::forget(m);
    core::mem::forget(t);
}

#[kani::proof]
#[kani::stub(core::fmt::write, no_fmt)]
fn x_insert_sorted() {
    use netflow_parser::variable_versions::ipfix::{Template, TemplateField};
    use netflow_parser::variable_versions::ipfix_lookup::IPFixField;
    use netflow_parser::verif_shim::VMap;
    let mut m: VMap<u16, Template> = VMap::new();
    let c0: u16 = kani::any();
    m.insert(c0, Template { template_id: c0, field_count: 1, fields: vec![TemplateField { field_type_number: 1, field_type: IPFixField::OctetDeltaCount, field_length: kani::any(), enterprise_number: None }], padding: vec![] });
    let k: u16 = kani::any();
    let t = Template { template_id: k, field_count: 0, fields: vec![], padding: vec![] };
    m.insert(k, t.clone());
    assert!(m.contains_key(&k));
    assert!(m.len() == if k == c0 { 1 } else { 2 });
    core::mem::forget(m);
    core::mem::forget(t);
}
