//! Serializer harnesses (C09, C10): decode with the real decoder, wrap in a packet with an
//! arbitrary header, re-export with the real `to_be_bytes`, compare with the input bytes.
//! Data records use the exact unsigned kernel model (d9.rs); everything else is real.
use crate::common::*;
use crate::km::unsigned_kernel_model;
use netflow_parser::variable_versions::{ipfix, v9};
use netflow_parser::variable_versions::ipfix_lookup::IPFixField;
use netflow_parser::variable_versions::v9_lookup::{ScopeFieldType, V9Field};

use netflow_parser::variable_versions::data_number::{DataNumber, FieldValue};

pub use crate::km::{fv_to_be_bytes_unreachable, fv_to_be_bytes_unsigned_model};

fn v9_header() -> v9::Header {
    v9::Header { version: 9, count: kani::any(), sys_up_time: kani::any(), unix_secs: kani::any(), sequence_number: kani::any(), source_id: kani::any() }
}

/// out == 00 09 | header (18 bytes) | set bytes[..setlen]
macro_rules! check_v9_out {
    ($pkt:expr, $buf:expr, $setlen:expr) => {{
        let h = $pkt.header;
        match $pkt.to_be_bytes() {
            Ok(out) => {
                assert!(out.len() == 20 + $setlen);
                assert!(out[0] == 0 && out[1] == 9);
                assert!(be16(&out, 2) == h.count && be32(&out, 4) == h.sys_up_time && be32(&out, 8) == h.unix_secs);
                assert!(be32(&out, 12) == h.sequence_number && be32(&out, 16) == h.source_id);
                let i: usize = kani::any();
                if i < $setlen && 20 + i < out.len() {
                    assert!(out[20 + i] == $buf[i]);
                }
                core::mem::forget(out);
            }
            Err(e) => {
                assert!(false);
                core::mem::forget(e);
            }
        }
    }};
}

/// C09: template flowset round trip, one harness per shape (field counts / padding written,
/// everything else symbolic), as in s9::s_v9_template.
macro_rules! ser_v9_template {
    ($name:ident, $fcs:expr, $nrec:expr, $pad:expr) => {
        #[kani::proof]
        #[kani::stub(core::fmt::write, no_fmt)]
        #[kani::stub(netflow_parser::variable_versions::data_number::FieldValue::to_be_bytes, fv_to_be_bytes_unreachable)]
        fn $name() {
            const FCS: [u16; 3] = $fcs;
            const NREC: usize = $nrec;
            const PAD: usize = $pad;
            const B: usize = {
                let mut t = PAD;
                let mut k = 0;
                while k < NREC {
                    t += 4 + 4 * FCS[k] as usize;
                    k += 1;
                }
                t
            };
            const N: usize = 4 + B;
            let mut p = v9::V9Parser::default();
            let mut buf: [u8; N] = kani::any();
            buf[0] = 0;
            buf[1] = 0;
            put16(&mut buf, 2, N as u16);
            let mut pos = 4;
            let mut k = 0;
            while k < NREC {
                put16(&mut buf, pos + 2, FCS[k]);
                pos += 4 + 4 * FCS[k] as usize;
                k += 1;
            }
            match v9::FlowSet::parse(&buf, &mut p) {
                Ok((rem, fs)) => {
                    let pkt = v9::V9 { header: v9_header(), flowsets: vec![fs] };
                    check_v9_out!(pkt, buf, N);
                    core::mem::forget(pkt);
                }
                Err(e) => {
                    assert!(false);
                    core::mem::forget(e);
                }
            }
            core::mem::forget(p);
        }
    };
}
ser_v9_template!(ser_v9_template_2f, [2, 0, 0], 1, 0);
ser_v9_template!(ser_v9_template_1f_pad3, [1, 0, 0], 1, 3);
ser_v9_template!(ser_v9_template_1f_1f, [1, 1, 0], 2, 2);

/// C09: options-template flowset round trip (shape written).
macro_rules! ser_v9_options_template {
    ($name:ident, $sl:expr, $ol:expr, $pad:expr) => {
        #[kani::proof]
        #[kani::stub(core::fmt::write, no_fmt)]
        #[kani::stub(netflow_parser::variable_versions::data_number::FieldValue::to_be_bytes, fv_to_be_bytes_unreachable)]
        fn $name() {
            const SL: usize = $sl;
            const OL: usize = $ol;
            const PAD: usize = $pad;
            const N: usize = 4 + 6 + 4 * (SL + OL) + PAD;
            let mut p = v9::V9Parser::default();
            let mut buf: [u8; N] = kani::any();
            buf[0] = 0;
            buf[1] = 1;
            put16(&mut buf, 2, N as u16);
            put16(&mut buf, 6, (4 * SL) as u16);
            put16(&mut buf, 8, (4 * OL) as u16);
            match v9::FlowSet::parse(&buf, &mut p) {
                Ok((rem, fs)) => {
                    let pkt = v9::V9 { header: v9_header(), flowsets: vec![fs] };
                    check_v9_out!(pkt, buf, N);
                    core::mem::forget(pkt);
                }
                Err(e) => {
                    assert!(false);
                    core::mem::forget(e);
                }
            }
            core::mem::forget(p);
        }
    };
}
ser_v9_options_template!(ser_v9_options_template_1_1, 1, 1, 2);

/// C09: data flowset (one unsigned field whose length is written: 2, 3 or 4; 7-byte body =>
/// 3/2/1 records + 1/1/3 padding bytes) round trip, padding included.
macro_rules! ser_v9_data {
    ($name:ident, $l0:expr) => {
        #[kani::proof]
        #[kani::stub(core::fmt::write, no_fmt)]
        #[kani::stub(netflow_parser::variable_versions::data_number::FieldValue::from_field_type, unsigned_kernel_model)]
        #[kani::stub(netflow_parser::variable_versions::data_number::FieldValue::to_be_bytes, fv_to_be_bytes_unsigned_model)]
        fn $name() {
            const B: usize = 7;
            let mut p = v9::V9Parser::default();
            p.templates.insert(256, v9::Template {
                template_id: 256,
                field_count: 1,
                fields: vec![v9::TemplateField { field_type_number: 1, field_type: V9Field::InBytes, field_length: $l0 }],
            });
            let body: [u8; B] = kani::any();
            match v9::Data::parse(&body, &mut p, 256) {
                Ok((rem, d)) => {
                    assert!(d.fields.len() == B / $l0 && d.padding.len() == B % $l0);
                    let mut buf = [0u8; 4 + B];
                    buf[0] = 1;
                    buf[1] = 0;
                    buf[3] = (4 + B) as u8;
                    let mut k = 0;
                    while k < B {
                        buf[4 + k] = body[k];
                        k += 1;
                    }
                    let fs = v9::FlowSet { header: v9::FlowSetHeader { flowset_id: 256, length: (4 + B) as u16 }, body: v9::FlowSetBody::Data(d) };
                    let pkt = v9::V9 { header: v9_header(), flowsets: vec![fs] };
                    check_v9_out!(pkt, buf, 4 + B);
                    core::mem::forget(pkt);
                }
                Err(e) => {
                    assert!(false);
                    core::mem::forget(e);
                }
            }
            core::mem::forget(p);
        }
    };
}
ser_v9_data!(ser_v9_data_2, 2);
ser_v9_data!(ser_v9_data_3, 3);
ser_v9_data!(ser_v9_data_4, 4);

/// C09: options-data flowset (one record: 1 scope field + 1 option field, padding) round trip.
#[kani::proof]
#[kani::stub(core::fmt::write, no_fmt)]
#[kani::stub(netflow_parser::variable_versions::data_number::FieldValue::to_be_bytes, fv_to_be_bytes_unreachable)]
fn ser_v9_options_data() {
    const B: usize = 6;
    let sl: u16 = kani::any();
    let ol: u16 = kani::any();
    kani::assume(sl >= 1 && sl <= 2 && ol >= 1 && ol <= 2);
    let st: u16 = kani::any();
    kani::assume(st >= 1 && st <= 5);
    let mut p = v9::V9Parser::default();
    p.options_templates.insert(256, v9::OptionsTemplate {
        template_id: 256,
        options_scope_length: 4,
        options_length: 4,
        scope_fields: vec![v9::OptionsTemplateScopeField { field_type_number: st, field_type: ScopeFieldType::from(st), field_length: sl }],
        option_fields: vec![v9::TemplateField { field_type_number: 1, field_type: V9Field::InBytes, field_length: ol }],
    });
    let body: [u8; B] = kani::any();
    match v9::OptionsData::parse(&body, &mut p, 256) {
        Ok((rem, d)) => {
            assert!(d.scope_fields.len() == 1 && d.options_fields.len() == 1);
            assert!(d.padding.len() == B - (sl + ol) as usize);
            let mut buf = [0u8; 4 + B];
            buf[0] = 1;
            buf[1] = 0;
            buf[3] = (4 + B) as u8;
            let mut k = 0;
            while k < B {
                buf[4 + k] = body[k];
                k += 1;
            }
            let fs = v9::FlowSet { header: v9::FlowSetHeader { flowset_id: 256, length: (4 + B) as u16 }, body: v9::FlowSetBody::OptionsData(d) };
            let pkt = v9::V9 { header: v9_header(), flowsets: vec![fs] };
            check_v9_out!(pkt, buf, 4 + B);
            core::mem::forget(pkt);
        }
        Err(e) => {
            assert!(false);
            core::mem::forget(e);
        }
    }
    core::mem::forget(p);
}

fn ipfix_header() -> ipfix::Header {
    ipfix::Header { version: 10, length: kani::any(), export_time: kani::any(), sequence_number: kani::any(), observation_domain_id: kani::any() }
}

macro_rules! check_ipfix_out {
    ($pkt:expr, $buf:expr, $setlen:expr) => {{
        let h = $pkt.header;
        match $pkt.to_be_bytes() {
            Ok(out) => {
                assert!(out.len() == 16 + $setlen);
                assert!(out[0] == 0 && out[1] == 10);
                assert!(be16(&out, 2) == h.length && be32(&out, 4) == h.export_time);
                assert!(be32(&out, 8) == h.sequence_number && be32(&out, 12) == h.observation_domain_id);
                let i: usize = kani::any();
                if i < $setlen && 16 + i < out.len() {
                    assert!(out[16 + i] == $buf[i]);
                }
                core::mem::forget(out);
            }
            Err(e) => {
                assert!(false);
                core::mem::forget(e);
            }
        }
    }};
}

/// C10: template set round trip, shapes as in s10::s_ipfix_template (field count, E bits,
/// padding written).  Plain specifiers must round-trip; enterprise specifiers are the known
/// finding C10-enterprise-bit (witness harness).
macro_rules! ser_ipfix_template {
    ($name:ident, $fc:expr, $ent:expr, $pad:expr) => {
        #[kani::proof]
        #[kani::stub(core::fmt::write, no_fmt)]
        #[kani::stub(netflow_parser::variable_versions::data_number::FieldValue::to_be_bytes, fv_to_be_bytes_unreachable)]
        fn $name() {
            const FC: usize = $fc;
            const ENT: [bool; 2] = $ent;
            const PAD: usize = $pad;
            const RL: usize = 4 + (if FC >= 1 { if ENT[0] { 8 } else { 4 } } else { 0 }) + (if FC >= 2 { if ENT[1] { 8 } else { 4 } } else { 0 });
            const N: usize = 4 + RL + PAD;
            let mut p = ipfix::IPFixParser::default();
            let mut buf: [u8; N] = kani::any();
            buf[0] = 0;
            buf[1] = 2;
            put16(&mut buf, 2, N as u16);
            put16(&mut buf, 6, FC as u16);
            let mut pos = 8;
            let mut j = 0;
            while j < FC {
                if ENT[j] {
                    buf[pos] |= 0x80;
                    pos += 8;
                } else {
                    buf[pos] &= 0x7f;
                    pos += 4;
                }
                j += 1;
            }
            kani::assume(be16(&buf, 10) > 0);
            match ipfix::FlowSet::parse(&buf, &mut p) {
                Ok((rem, fs)) => {
                    let pkt = ipfix::IPFix { header: ipfix_header(), flowsets: vec![fs] };
                    check_ipfix_out!(pkt, buf, N);
                    core::mem::forget(pkt);
                }
                Err(e) => {
                    assert!(false);
                    core::mem::forget(e);
                }
            }
            core::mem::forget(p);
        }
    };
}
ser_ipfix_template!(ser_ipfix_template_plain, 2, [false, false], 2);
ser_ipfix_template!(ser_ipfix_template_plain_1, 1, [false, false], 3);
ser_ipfix_template!(ser_ipfix_template_enterprise_kf, 2, [true, false], 0);

/// C10: data set with one fixed-length unsigned field (length written) round trip, padding included.
macro_rules! ser_ipfix_data {
    ($name:ident, $l0:expr) => {
        #[kani::proof]
        #[kani::stub(core::fmt::write, no_fmt)]
        #[kani::stub(netflow_parser::variable_versions::data_number::FieldValue::from_field_type, unsigned_kernel_model)]
        #[kani::stub(netflow_parser::variable_versions::data_number::FieldValue::to_be_bytes, fv_to_be_bytes_unsigned_model)]
        fn $name() {
            const B: usize = 5;
            let mut p = ipfix::IPFixParser::default();
            p.templates.insert(256, ipfix::Template {
                template_id: 256,
                field_count: 1,
                fields: vec![ipfix::TemplateField { field_type_number: 1, field_type: IPFixField::OctetDeltaCount, field_length: $l0, enterprise_number: None }],
                padding: vec![],
            });
            let body: [u8; B] = kani::any();
            match ipfix::Data::parse(&body, &mut p, 256) {
                Ok((rem, d)) => {
                    let mut buf = [0u8; 4 + B];
                    buf[0] = 1;
                    buf[1] = 0;
                    buf[3] = (4 + B) as u8;
                    let mut k = 0;
                    while k < B {
                        buf[4 + k] = body[k];
                        k += 1;
                    }
                    let fs = ipfix::FlowSet { header: ipfix::FlowSetHeader { header_id: 256, length: (4 + B) as u16 }, body: ipfix::FlowSetBody::Data(d) };
                    let pkt = ipfix::IPFix { header: ipfix_header(), flowsets: vec![fs] };
                    check_ipfix_out!(pkt, buf, 4 + B);
                    core::mem::forget(pkt);
                }
                Err(e) => {
                    assert!(false);
                    core::mem::forget(e);
                }
            }
            core::mem::forget(p);
        }
    };
}
ser_ipfix_data!(ser_ipfix_data_2, 2);
ser_ipfix_data!(ser_ipfix_data_4, 4);

/// Known-finding witness C10-varlen-prefix: the length prefix of a variable-length field is
/// not re-exported.
#[kani::proof]
#[kani::stub(core::fmt::write, no_fmt)]
#[kani::stub(netflow_parser::variable_versions::data_number::FieldValue::from_field_type, unsigned_kernel_model)]
#[kani::stub(netflow_parser::variable_versions::data_number::FieldValue::to_be_bytes, fv_to_be_bytes_unsigned_model)]
fn ser_ipfix_varlen_kf() {
    const B: usize = 3;
    let mut p = ipfix::IPFixParser::default();
    p.templates.insert(256, ipfix::Template {
        template_id: 256,
        field_count: 1,
        fields: vec![ipfix::TemplateField { field_type_number: 1, field_type: IPFixField::OctetDeltaCount, field_length: 65535, enterprise_number: None }],
        padding: vec![],
    });
    let mut body: [u8; B] = kani::any();
    body[0] = 2;
    if let Ok((rem, d)) = ipfix::Data::parse(&body, &mut p, 256) {
        let mut buf = [0u8; 4 + B];
        buf[0] = 1;
        buf[3] = (4 + B) as u8;
        let mut k = 0;
        while k < B {
            buf[4 + k] = body[k];
            k += 1;
        }
        let fs = ipfix::FlowSet { header: ipfix::FlowSetHeader { header_id: 256, length: (4 + B) as u16 }, body: ipfix::FlowSetBody::Data(d) };
        let pkt = ipfix::IPFix { header: ipfix_header(), flowsets: vec![fs] };
        check_ipfix_out!(pkt, buf, 4 + B);
        core::mem::forget(pkt);
    }
    core::mem::forget(p);
}

/// C09: flowsets whose length field is below 4 are accepted (empty body, 4 header bytes
/// consumed) and must re-export as those 4 bytes.
#[kani::proof]
#[kani::stub(core::fmt::write, no_fmt)]
#[kani::stub(netflow_parser::variable_versions::data_number::FieldValue::to_be_bytes, fv_to_be_bytes_unreachable)]
fn ser_v9_short_length() {
    const N: usize = 6;
    let mut p = v9::V9Parser::default();
    let mut buf: [u8; N] = kani::any();
    buf[0] = 0;
    kani::assume(buf[1] <= 1); // template or options-template flowset id
    buf[2] = 0;
    kani::assume(buf[3] < 4);
    match v9::FlowSet::parse(&buf, &mut p) {
        Ok((rem, fs)) => {
            assert!(rem.len() == 2);
            let pkt = v9::V9 { header: v9_header(), flowsets: vec![fs] };
            check_v9_out!(pkt, buf, 4usize);
            kani::cover!(buf[3] == 0 && buf[1] == 1);
            core::mem::forget(pkt);
        }
        Err(e) => {
            assert!(false);
            core::mem::forget(e);
        }
    }
    core::mem::forget(p);
}
