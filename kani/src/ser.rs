//! Serializer harnesses (C09, C10): decode with the real decoder, wrap in a packet with an
//! arbitrary header, re-export with the real `to_be_bytes`, compare with the input bytes.
//! Data records use the exact unsigned kernel model (d9.rs); everything else is real.
use crate::common::*;
use crate::d9::unsigned_kernel_model;
use netflow_parser::variable_versions::{ipfix, v9};
use netflow_parser::variable_versions::ipfix_lookup::IPFixField;
use netflow_parser::variable_versions::v9_lookup::{ScopeFieldType, V9Field};

fn v9_header() -> v9::Header {
    v9::Header { version: 9, count: kani::any(), sys_up_time: kani::any(), unix_secs: kani::any(), sequence_number: kani::any(), source_id: kani::any() }
}

/// out == 00 09 | header (18 bytes) | set bytes[..setlen]
macro_rules! check_v9_out {
    ($pkt:expr, $buf:expr, $setlen:expr) => {{
        let h = $pkt.header;
        match $pkt.to_be_bytes() {
            Ok(out) => {
                assert!(out.len() == 20 + $setlen);
                assert!(out[0] == 0 && out[1] == 9);
                assert!(be16(&out, 2) == h.count && be32(&out, 4) == h.sys_up_time && be32(&out, 8) == h.unix_secs);
                assert!(be32(&out, 12) == h.sequence_number && be32(&out, 16) == h.source_id);
                let i: usize = kani::any();
                if i < $setlen && 20 + i < out.len() {
                    assert!(out[20 + i] == $buf[i]);
                }
                core::mem::forget(out);
            }
            Err(e) => {
                assert!(false);
                core::mem::forget(e);
            }
        }
    }};
}

/// C09: template flowset (<= 3 records, <= 2 fields each, padding) round trip.
#[kani::proof]
#[kani::stub(core::fmt::write, no_fmt)]
fn ser_v9_template() {
    const B: usize = 12;
    const N: usize = 4 + B;
    let mut p = v9::V9Parser::default();
    let mut buf: [u8; N] = kani::any();
    buf[0] = 0;
    buf[1] = 0;
    let len = be16(&buf, 2);
    kani::assume(len >= 4 && len as usize <= N);
    match v9::FlowSet::parse(&buf, &mut p) {
        Ok((rem, fs)) => {
            let pkt = v9::V9 { header: v9_header(), flowsets: vec![fs] };
            check_v9_out!(pkt, buf, len as usize);
            kani::cover!(len == 16);
            kani::cover!(len == 11);
            core::mem::forget(pkt);
        }
        Err(e) => {
            assert!(false);
            core::mem::forget(e);
        }
    }
    core::mem::forget(p);
}

/// C09: options-template flowset round trip.
#[kani::proof]
#[kani::stub(core::fmt::write, no_fmt)]
fn ser_v9_options_template() {
    const B: usize = 14;
    const N: usize = 4 + B;
    let mut p = v9::V9Parser::default();
    let mut buf: [u8; N] = kani::any();
    buf[0] = 0;
    buf[1] = 1;
    let len = be16(&buf, 2);
    kani::assume(len >= 4 && len as usize <= N);
    // RFC 3954: scope/option lengths are multiples of 4 (else the record itself cannot be
    // reproduced from the counts the library keeps)
    kani::assume(buf[7] % 4 == 0 && buf[9] % 4 == 0);
    match v9::FlowSet::parse(&buf, &mut p) {
        Ok((rem, fs)) => {
            let pkt = v9::V9 { header: v9_header(), flowsets: vec![fs] };
            check_v9_out!(pkt, buf, len as usize);
            kani::cover!(len == 18);
            core::mem::forget(pkt);
        }
        Err(e) => {
            assert!(false);
            core::mem::forget(e);
        }
    }
    core::mem::forget(p);
}

/// C09: data flowset (1 or 2 unsigned fields, <= 3 records, padding 0..=3) round trip,
/// padding included.
#[kani::proof]
#[kani::stub(core::fmt::write, no_fmt)]
#[kani::stub(netflow_parser::variable_versions::data_number::FieldValue::from_field_type, unsigned_kernel_model)]
fn ser_v9_data() {
    const B: usize = 7;
    let l0: u16 = kani::any();
    kani::assume(l0 >= 2 && l0 <= 4);
    let mut p = v9::V9Parser::default();
    p.templates.insert(256, v9::Template {
        template_id: 256,
        field_count: 1,
        fields: vec![v9::TemplateField { field_type_number: 1, field_type: V9Field::InBytes, field_length: l0 }],
    });
    let body: [u8; B] = kani::any();
    match v9::Data::parse(&body, &mut p, 256) {
        Ok((rem, d)) => {
            let mut buf = [0u8; 4 + B];
            buf[0] = 1;
            buf[1] = 0;
            buf[3] = (4 + B) as u8;
            let mut k = 0;
            while k < B {
                buf[4 + k] = body[k];
                k += 1;
            }
            let fs = v9::FlowSet { header: v9::FlowSetHeader { flowset_id: 256, length: (4 + B) as u16 }, body: v9::FlowSetBody::Data(d) };
            let pkt = v9::V9 { header: v9_header(), flowsets: vec![fs] };
            check_v9_out!(pkt, buf, 4 + B);
            kani::cover!(l0 == 2);
            kani::cover!(l0 == 4);
            core::mem::forget(pkt);
        }
        Err(e) => {
            assert!(false);
            core::mem::forget(e);
        }
    }
    core::mem::forget(p);
}

/// C09: options-data flowset (one record: 1 scope field + 1 option field, padding) round trip.
#[kani::proof]
#[kani::stub(core::fmt::write, no_fmt)]
fn ser_v9_options_data() {
    const B: usize = 6;
    let sl: u16 = kani::any();
    let ol: u16 = kani::any();
    kani::assume(sl >= 1 && sl <= 2 && ol >= 1 && ol <= 2);
    let st: u16 = kani::any();
    kani::assume(st >= 1 && st <= 5);
    let mut p = v9::V9Parser::default();
    p.options_templates.insert(256, v9::OptionsTemplate {
        template_id: 256,
        options_scope_length: 4,
        options_length: 4,
        scope_fields: vec![v9::OptionsTemplateScopeField { field_type_number: st, field_type: ScopeFieldType::from(st), field_length: sl }],
        option_fields: vec![v9::TemplateField { field_type_number: 1, field_type: V9Field::InBytes, field_length: ol }],
    });
    let body: [u8; B] = kani::any();
    match v9::OptionsData::parse(&body, &mut p, 256) {
        Ok((rem, d)) => {
            assert!(d.scope_fields.len() == 1 && d.options_fields.len() == 1);
            assert!(d.padding.len() == B - (sl + ol) as usize);
            let mut buf = [0u8; 4 + B];
            buf[0] = 1;
            buf[1] = 0;
            buf[3] = (4 + B) as u8;
            let mut k = 0;
            while k < B {
                buf[4 + k] = body[k];
                k += 1;
            }
            let fs = v9::FlowSet { header: v9::FlowSetHeader { flowset_id: 256, length: (4 + B) as u16 }, body: v9::FlowSetBody::OptionsData(d) };
            let pkt = v9::V9 { header: v9_header(), flowsets: vec![fs] };
            check_v9_out!(pkt, buf, 4 + B);
            core::mem::forget(pkt);
        }
        Err(e) => {
            assert!(false);
            core::mem::forget(e);
        }
    }
    core::mem::forget(p);
}

fn ipfix_header() -> ipfix::Header {
    ipfix::Header { version: 10, length: kani::any(), export_time: kani::any(), sequence_number: kani::any(), observation_domain_id: kani::any() }
}

macro_rules! check_ipfix_out {
    ($pkt:expr, $buf:expr, $setlen:expr) => {{
        let h = $pkt.header;
        match $pkt.to_be_bytes() {
            Ok(out) => {
                assert!(out.len() == 16 + $setlen);
                assert!(out[0] == 0 && out[1] == 10);
                assert!(be16(&out, 2) == h.length && be32(&out, 4) == h.export_time);
                assert!(be32(&out, 8) == h.sequence_number && be32(&out, 12) == h.observation_domain_id);
                let i: usize = kani::any();
                if i < $setlen && 16 + i < out.len() {
                    assert!(out[16 + i] == $buf[i]);
                }
                core::mem::forget(out);
            }
            Err(e) => {
                assert!(false);
                core::mem::forget(e);
            }
        }
    }};
}

/// C10: template set, one record of <= 2 *plain* specifiers + padding, round trip.
/// (enterprise specifiers: known finding C10-enterprise-bit, witness below)
macro_rules! ser_ipfix_template {
    ($name:ident, $plain:expr) => {
        #[kani::proof]
        #[kani::stub(core::fmt::write, no_fmt)]
        fn $name() {
            const N: usize = 4 + 4 + 8 + 4 + 3;
            let mut p = ipfix::IPFixParser::default();
            let mut buf: [u8; N] = kani::any();
            buf[0] = 0;
            buf[1] = 2;
            let len = be16(&buf, 2);
            kani::assume(len >= 12 && len as usize <= N);
            let fc = be16(&buf, 6);
            kani::assume(fc >= 1 && fc <= 2);
            let e0 = buf[8] >= 128;
            let o1 = if e0 { 16 } else { 12 };
            let e1 = fc == 2 && buf[o1] >= 128;
            if $plain {
                kani::assume(!e0 && !e1);
            } else {
                kani::assume(e0 || e1);
            }
            let rl = 4 + (if e0 { 8 } else { 4 }) + (if fc == 2 { if e1 { 8 } else { 4 } } else { 0 });
            kani::assume(4 + rl <= len as usize && len as usize - 4 - rl < 4);
            kani::assume(be16(&buf, 10) > 0);
            match ipfix::FlowSet::parse(&buf, &mut p) {
                Ok((rem, fs)) => {
                    let pkt = ipfix::IPFix { header: ipfix_header(), flowsets: vec![fs] };
                    check_ipfix_out!(pkt, buf, len as usize);
                    kani::cover!(fc == 2);
                    core::mem::forget(pkt);
                }
                Err(e) => {
                    assert!(false);
                    core::mem::forget(e);
                }
            }
            core::mem::forget(p);
        }
    };
}
ser_ipfix_template!(ser_ipfix_template_plain, true);
ser_ipfix_template!(ser_ipfix_template_enterprise_kf, false);

/// C10: data set with fixed-length unsigned fields round trip (padding included).
#[kani::proof]
#[kani::stub(core::fmt::write, no_fmt)]
#[kani::stub(netflow_parser::variable_versions::data_number::FieldValue::from_field_type, unsigned_kernel_model)]
fn ser_ipfix_data() {
    const B: usize = 7;
    let l0: u16 = kani::any();
    kani::assume(l0 >= 2 && l0 <= 4);
    let mut p = ipfix::IPFixParser::default();
    p.templates.insert(256, ipfix::Template {
        template_id: 256,
        field_count: 1,
        fields: vec![ipfix::TemplateField { field_type_number: 1, field_type: IPFixField::OctetDeltaCount, field_length: l0, enterprise_number: None }],
        padding: vec![],
    });
    let body: [u8; B] = kani::any();
    match ipfix::Data::parse(&body, &mut p, 256) {
        Ok((rem, d)) => {
            let mut buf = [0u8; 4 + B];
            buf[0] = 1;
            buf[1] = 0;
            buf[3] = (4 + B) as u8;
            let mut k = 0;
            while k < B {
                buf[4 + k] = body[k];
                k += 1;
            }
            let fs = ipfix::FlowSet { header: ipfix::FlowSetHeader { header_id: 256, length: (4 + B) as u16 }, body: ipfix::FlowSetBody::Data(d) };
            let pkt = ipfix::IPFix { header: ipfix_header(), flowsets: vec![fs] };
            check_ipfix_out!(pkt, buf, 4 + B);
            kani::cover!(l0 == 3);
            core::mem::forget(pkt);
        }
        Err(e) => {
            assert!(false);
            core::mem::forget(e);
        }
    }
    core::mem::forget(p);
}

/// Known-finding witness C10-varlen-prefix: the length prefix of a variable-length field is
/// not re-exported.
#[kani::proof]
#[kani::stub(core::fmt::write, no_fmt)]
#[kani::stub(netflow_parser::variable_versions::data_number::FieldValue::from_field_type, unsigned_kernel_model)]
fn ser_ipfix_varlen_kf() {
    const B: usize = 3;
    let mut p = ipfix::IPFixParser::default();
    p.templates.insert(256, ipfix::Template {
        template_id: 256,
        field_count: 1,
        fields: vec![ipfix::TemplateField { field_type_number: 1, field_type: IPFixField::OctetDeltaCount, field_length: 65535, enterprise_number: None }],
        padding: vec![],
    });
    let mut body: [u8; B] = kani::any();
    body[0] = 2;
    if let Ok((rem, d)) = ipfix::Data::parse(&body, &mut p, 256) {
        let mut buf = [0u8; 4 + B];
        buf[0] = 1;
        buf[3] = (4 + B) as u8;
        let mut k = 0;
        while k < B {
            buf[4 + k] = body[k];
            k += 1;
        }
        let fs = ipfix::FlowSet { header: ipfix::FlowSetHeader { header_id: 256, length: (4 + B) as u16 }, body: ipfix::FlowSetBody::Data(d) };
        let pkt = ipfix::IPFix { header: ipfix_header(), flowsets: vec![fs] };
        check_ipfix_out!(pkt, buf, 4 + B);
        core::mem::forget(pkt);
    }
    core::mem::forget(p);
}

/// C09: flowsets whose length field is below 4 are accepted (empty body, 4 header bytes
/// consumed) and must re-export as those 4 bytes.
#[kani::proof]
#[kani::stub(core::fmt::write, no_fmt)]
fn ser_v9_short_length() {
    const N: usize = 6;
    let mut p = v9::V9Parser::default();
    let mut buf: [u8; N] = kani::any();
    buf[0] = 0;
    kani::assume(buf[1] <= 1); // template or options-template flowset id
    buf[2] = 0;
    kani::assume(buf[3] < 4);
    match v9::FlowSet::parse(&buf, &mut p) {
        Ok((rem, fs)) => {
            assert!(rem.len() == 2);
            let pkt = v9::V9 { header: v9_header(), flowsets: vec![fs] };
            check_v9_out!(pkt, buf, 4usize);
            kani::cover!(buf[3] == 0 && buf[1] == 1);
            core::mem::forget(pkt);
        }
        Err(e) => {
            assert!(false);
            core::mem::forget(e);
        }
    }
    core::mem::forget(p);
}
