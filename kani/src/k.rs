//! K layer: field-value kernels.  One harness per `FieldDataType`, each over *every*
//! declared length (u16), every available length 0..=MAXB and all byte values.
//!
//! Oracle (written from RFC 3954 §8 / RFC 7011 §6.1 encodings, not from the library):
//! a field of declared length `len` whose abstract type has a fixed set of legal widths
//! decodes iff `len` is legal and `len` bytes are available; it then consumes exactly
//! `len` bytes and the value is the big-endian reading of those bytes.
use crate::common::*;
use netflow_parser::protocol::ProtocolTypes;
use netflow_parser::variable_versions::data_number::{DataNumber, FieldDataType, FieldValue};
use std::net::{Ipv4Addr, Ipv6Addr};
use std::time::Duration;

pub fn be_n(b: &[u8], n: usize) -> u128 {
    let mut v: u128 = 0;
    let mut i = 0;
    while i < n {
        v = (v << 8) | b[i] as u128;
        i += 1;
    }
    v
}

pub fn num_width_ok(len: u16) -> bool {
    len == 1 || len == 2 || len == 3 || len == 4 || len == 8 || len == 16
}

/// Consumption contract shared by all kernels: Ok => rem is the suffix after `w` bytes.
macro_rules! consumed {
    ($rem:expr, $buf:expr, $n:expr, $w:expr) => {{
        assert!($w <= $n);
        assert!($rem.len() == $n - $w);
        assert!($rem.as_ptr() as usize == $buf.as_ptr() as usize + $w);
    }};
}

/// Same-length re-export (C09/C10 kernel clause): to_be_bytes(v) == input[..w].
macro_rules! reexport_exact {
    ($v:expr, $buf:expr, $w:expr) => {{
        match $v.to_be_bytes() {
            Ok(out) => {
                assert!(out.len() == $w);
                let i: usize = kani::any();
                if i < $w && i < out.len() {
                    assert!(out[i] == $buf[i]);
                }
                core::mem::forget(out);
            }
            Err(e) => {
                assert!(false);
                core::mem::forget(e);
            }
        }
    }};
}

#[kani::proof]
#[kani::stub(core::fmt::write, no_fmt)]
fn k_unsigned() {
    const M: usize = 17;
    let buf: [u8; M] = kani::any();
    let n: usize = kani::any();
    kani::assume(n <= M);
    let len: u16 = kani::any();
    match FieldValue::from_field_type(&buf[..n], FieldDataType::UnsignedDataNumber, len) {
        Ok((rem, v)) => {
            let w = len as usize;
            // Whatever width decodes must consume exactly the declared bytes and carry their
            // big-endian value.  For the widths the library supports today (1,2,3,4,8,16) the
            // variant is fixed and the value re-exports at the same width; other widths (RFC
            // 7011 reduced-size encoding) are not demanded to decode, so a library that learns
            // them correctly raises no alarm here.
            assert!(w >= 1 && w <= 16);
            consumed!(rem, buf, n, w);
            let x = be_n(&buf, w);
            match &v {
                FieldValue::DataNumber(DataNumber::U8(y)) => assert!(w == 1 && *y as u128 == x),
                FieldValue::DataNumber(DataNumber::U16(y)) => assert!(w <= 2 && *y as u128 == x),
                FieldValue::DataNumber(DataNumber::U24(y)) => assert!(w <= 3 && *y as u128 == x),
                FieldValue::DataNumber(DataNumber::U32(y)) => assert!(w <= 4 && *y as u128 == x),
                FieldValue::DataNumber(DataNumber::U64(y)) => assert!(w <= 8 && *y as u128 == x),
                FieldValue::DataNumber(DataNumber::U128(y)) => assert!(*y == x),
                _ => assert!(false),
            }
            if num_width_ok(len) {
                match &v {
                    FieldValue::DataNumber(DataNumber::U8(_)) => assert!(w == 1),
                    FieldValue::DataNumber(DataNumber::U16(_)) => assert!(w == 2),
                    FieldValue::DataNumber(DataNumber::U24(_)) => assert!(w == 3),
                    FieldValue::DataNumber(DataNumber::U32(_)) => assert!(w == 4),
                    FieldValue::DataNumber(DataNumber::U64(_)) => assert!(w == 8),
                    _ => assert!(w == 16),
                }
                reexport_exact!(v, buf, w);
            }
            kani::cover!(w == 16);
            kani::cover!(w == 3);
            core::mem::forget(v);
        }
        Err(e) => {
            assert!(!(num_width_ok(len) && n >= len as usize));
            kani::cover!(num_width_ok(len));
            core::mem::forget(e);
        }
    }
}

/// Signed numbers.  The library has no i8/i16/i64/i128 value type: widths 1 and 2 are
/// sign-extended into I32 (value preserved), width 8/16 are truncated to I32 (value NOT
/// preserved unless it fits) - see known finding C04-signed-8-16.  This harness demands
/// the numeric value for widths 1,2,3,4 and only the consumption contract for 8,16.
#[kani::proof]
#[kani::stub(core::fmt::write, no_fmt)]
fn k_signed() {
    const M: usize = 17;
    let buf: [u8; M] = kani::any();
    let n: usize = kani::any();
    kani::assume(n <= M);
    let len: u16 = kani::any();
    match FieldValue::from_field_type(&buf[..n], FieldDataType::SignedDataNumber, len) {
        Ok((rem, v)) => {
            let w = len as usize;
            assert!(num_width_ok(len));
            consumed!(rem, buf, n, w);
            let x = be_n(&buf, w);
            // sign-extend the w-byte two's complement value to i128
            let sx: i128 = if w == 16 { x as i128 } else {
                let sh = 128 - 8 * w as u32;
                ((x << sh) as i128) >> sh
            };
            match &v {
                FieldValue::DataNumber(DataNumber::I32(y)) => {
                    assert!(w == 1 || w == 2 || w == 4 || w == 8 || w == 16);
                    if w <= 4 {
                        assert!(*y as i128 == sx);
                    }
                }
                FieldValue::DataNumber(DataNumber::I24(y)) => assert!(w == 3 && *y as i128 == sx),
                _ => assert!(false),
            }
            if w == 3 || w == 4 {
                reexport_exact!(v, buf, w);
            }
            kani::cover!(w == 3 && sx < 0);
            kani::cover!(w == 1 && sx < 0);
            core::mem::forget(v);
        }
        Err(e) => {
            assert!(!(num_width_ok(len) && n >= len as usize));
            core::mem::forget(e);
        }
    }
}

/// Known-finding witness C04-signed-8-16: 8/16-byte signed values are truncated to i32.
#[kani::proof]
#[kani::stub(core::fmt::write, no_fmt)]
fn k_signed_wide_kf() {
    const M: usize = 16;
    let buf: [u8; M] = kani::any();
    let len: u16 = kani::any();
    kani::assume(len == 8 || len == 16);
    if let Ok((rem, v)) = FieldValue::from_field_type(&buf, FieldDataType::SignedDataNumber, len) {
        let w = len as usize;
        let x = be_n(&buf, w);
        let sx: i128 = if w == 16 { x as i128 } else { ((x << 64) as i128) >> 64 };
        match &v {
            FieldValue::DataNumber(DataNumber::I32(y)) => assert!(*y as i128 == sx),
            _ => {}
        }
        core::mem::forget(v);
    }
}

/// Known-finding witness C09-signed-narrow: 1/2/8/16-byte signed re-export is 4 bytes.
#[kani::proof]
#[kani::stub(core::fmt::write, no_fmt)]
fn k_signed_reexport_kf() {
    const M: usize = 16;
    let buf: [u8; M] = kani::any();
    let len: u16 = kani::any();
    kani::assume(len == 1 || len == 2 || len == 8 || len == 16);
    if let Ok((rem, v)) = FieldValue::from_field_type(&buf, FieldDataType::SignedDataNumber, len) {
        let w = len as usize;
        reexport_exact!(v, buf, w);
        core::mem::forget(v);
    }
}

fn dur_unit(ty: &FieldDataType) -> u8 {
    match ty {
        FieldDataType::DurationSeconds => 0,
        FieldDataType::DurationMillis => 1,
        FieldDataType::DurationMicros => 2,
        _ => 3,
    }
}

/// Durations: value = unsigned big-endian reading of `len` bytes, in the unit of the type.
/// Width 16 does not fit the library's `usize` conversion (value truncated to 64 bits):
/// only widths 1,2,3,4,8 carry a value demand here.
macro_rules! k_duration {
    ($name:ident, $ty:expr, $unit:expr, $vw:expr) => {
        #[kani::proof]
        #[kani::stub(core::fmt::write, no_fmt)]
        fn $name() {
            const M: usize = 17;
            let buf: [u8; M] = kani::any();
            let n: usize = kani::any();
            kani::assume(n <= M);
            let len: u16 = kani::any();
            match FieldValue::from_field_type(&buf[..n], $ty, len) {
                Ok((rem, v)) => {
                    let w = len as usize;
                    assert!(num_width_ok(len));
                    consumed!(rem, buf, n, w);
                    let x = be_n(&buf, w);
                    match &v {
                        FieldValue::Duration(d) => {
                            if w <= $vw {
                                let x = x as u64;
                                let (s, ns): (u64, u32) = match $unit {
                                    0 => (x, 0),
                                    1 => (x / 1000, ((x % 1000) * 1_000_000) as u32),
                                    2 => (x / 1_000_000, ((x % 1_000_000) * 1000) as u32),
                                    _ => (x / 1_000_000_000, (x % 1_000_000_000) as u32),
                                };
                                assert!(d.as_secs() == s);
                                assert!(d.subsec_nanos() == ns);
                            }
                        }
                        _ => assert!(false),
                    }
                    kani::cover!(w == 8);
                    kani::cover!(w == 4);
                    // re-export must not panic whatever the value (C01)
                    let out = v.to_be_bytes();
                    core::mem::forget(out);
                    core::mem::forget(v);
                }
                Err(e) => {
                    assert!(!(num_width_ok(len) && n >= len as usize));
                    core::mem::forget(e);
                }
            }
        }
    };
}
// value demand up to width $vw: 64-bit division by a constant is slow to bit-blast, so the
// quick variants demand values for widths <= 4 (the widths V9/IPFIX sysUpTime fields use)
// and the *_w8 variants (thorough) for widths <= 8.
k_duration!(k_dur_secs, FieldDataType::DurationSeconds, 0u8, 8);
k_duration!(k_dur_millis, FieldDataType::DurationMillis, 1u8, 4);
k_duration!(k_dur_micros, FieldDataType::DurationMicros, 2u8, 4);
k_duration!(k_dur_nanos, FieldDataType::DurationNanos, 3u8, 4);
k_duration!(k_dur_millis_w8, FieldDataType::DurationMillis, 1u8, 8);

/// Known-finding witness C09-duration: a 4-byte millisecond duration (V9 FIRST/LAST_SWITCHED)
/// is re-exported as whole seconds, not as the bytes received.
#[kani::proof]
#[kani::stub(core::fmt::write, no_fmt)]
fn k_dur_millis_reexport_kf() {
    let buf: [u8; 4] = kani::any();
    if let Ok((rem, v)) = FieldValue::from_field_type(&buf, FieldDataType::DurationMillis, 4) {
        reexport_exact!(v, buf, 4usize);
        core::mem::forget(v);
    }
}

/// Known-finding witness C09-duration (seconds, width != 4 changes the width; width 8 may
/// also make to_be_bytes return Err).
#[kani::proof]
#[kani::stub(core::fmt::write, no_fmt)]
fn k_dur_secs_reexport_kf() {
    let buf: [u8; 8] = kani::any();
    let len: u16 = kani::any();
    kani::assume(len == 1 || len == 2 || len == 3 || len == 8);
    if let Ok((rem, v)) = FieldValue::from_field_type(&buf, FieldDataType::DurationSeconds, len) {
        reexport_exact!(v, buf, len as usize);
        core::mem::forget(v);
    }
}

/// Seconds at the natural width 4 do round-trip (remainder of the duration finding).
#[kani::proof]
#[kani::stub(core::fmt::write, no_fmt)]
fn k_dur_secs4_reexport() {
    let buf: [u8; 4] = kani::any();
    match FieldValue::from_field_type(&buf, FieldDataType::DurationSeconds, 4) {
        Ok((rem, v)) => {
            reexport_exact!(v, buf, 4usize);
            core::mem::forget(v);
        }
        Err(e) => {
            assert!(false);
            core::mem::forget(e);
        }
    }
}

/// Fixed-width kernels: the declared length is not consulted by the library; a conformant
/// template declares the natural width.  Demand: with `len == W` decode iff W bytes are
/// available, value = the W bytes.  For `len != W` only "no panic + consumes W or fails".
#[kani::proof]
#[kani::stub(core::fmt::write, no_fmt)]
fn k_ip4() {
    const M: usize = 6;
    let buf: [u8; M] = kani::any();
    let n: usize = kani::any();
    kani::assume(n <= M);
    let len: u16 = kani::any();
    match FieldValue::from_field_type(&buf[..n], FieldDataType::Ip4Addr, len) {
        Ok((rem, v)) => {
            consumed!(rem, buf, n, 4usize);
            match &v {
                FieldValue::Ip4Addr(ip) => assert!(u32::from(*ip) == be32(&buf, 0)),
                _ => assert!(false),
            }
            reexport_exact!(v, buf, 4usize);
            kani::cover!(len == 4);
            core::mem::forget(v);
        }
        Err(e) => {
            assert!(n < 4);
            core::mem::forget(e);
        }
    }
}

#[kani::proof]
#[kani::stub(core::fmt::write, no_fmt)]
fn k_ip6() {
    const M: usize = 17;
    let buf: [u8; M] = kani::any();
    let n: usize = kani::any();
    kani::assume(n <= M);
    let len: u16 = kani::any();
    match FieldValue::from_field_type(&buf[..n], FieldDataType::Ip6Addr, len) {
        Ok((rem, v)) => {
            consumed!(rem, buf, n, 16usize);
            match &v {
                FieldValue::Ip6Addr(ip) => assert!(u128::from(*ip) == be_n(&buf, 16)),
                _ => assert!(false),
            }
            reexport_exact!(v, buf, 16usize);
            kani::cover!(len == 16);
            core::mem::forget(v);
        }
        Err(e) => {
            assert!(n < 16);
            core::mem::forget(e);
        }
    }
}

#[kani::proof]
#[kani::stub(core::fmt::write, no_fmt)]
fn k_f64() {
    const M: usize = 9;
    let buf: [u8; M] = kani::any();
    let n: usize = kani::any();
    kani::assume(n <= M);
    let len: u16 = kani::any();
    match FieldValue::from_field_type(&buf[..n], FieldDataType::Float64, len) {
        Ok((rem, v)) => {
            consumed!(rem, buf, n, 8usize);
            match &v {
                FieldValue::Float64(f) => assert!(f.to_bits() == be_n(&buf, 8) as u64),
                _ => assert!(false),
            }
            reexport_exact!(v, buf, 8usize);
            kani::cover!(len == 8);
            core::mem::forget(v);
        }
        Err(e) => {
            assert!(n < 8);
            core::mem::forget(e);
        }
    }
}

/// Protocol identifier: one byte; every value 0..=255 is a legal protocol number and must
/// decode (C01/C04/C05) to the IANA name and re-export as the same byte.
#[kani::proof]
#[kani::stub(core::fmt::write, no_fmt)]
fn k_proto() {
    const M: usize = 3;
    let buf: [u8; M] = kani::any();
    let n: usize = kani::any();
    kani::assume(n <= M);
    let len: u16 = kani::any();
    // remainder of finding C04-proto-field-145-254 (decode fails) and of
    // C03-proto-0-1-144 is checked in fixed::proto_table; here: consumption + byte identity
    kani::assume(n == 0 || buf[0] <= 144 || buf[0] == 255);
    match FieldValue::from_field_type(&buf[..n], FieldDataType::ProtocolType, len) {
        Ok((rem, v)) => {
            consumed!(rem, buf, n, 1usize);
            match &v {
                FieldValue::ProtocolType(p) => {
                    if buf[0] <= 144 {
                        assert!(*p as u8 == buf[0]);
                    }
                }
                _ => assert!(false),
            }
            reexport_exact!(v, buf, 1usize);
            kani::cover!(len == 1 && buf[0] == 6);
            core::mem::forget(v);
        }
        Err(e) => {
            assert!(n < 1);
            core::mem::forget(e);
        }
    }
}

/// Known-finding witness C04-proto-field-unassigned: a protocol field carrying an
/// unassigned number (145..=254) fails to decode, so the whole record/flowset is lost.
#[kani::proof]
#[kani::stub(core::fmt::write, no_fmt)]
fn k_proto_unassigned_kf() {
    let buf: [u8; 2] = kani::any();
    kani::assume(buf[0] >= 145 && buf[0] <= 254);
    let r = FieldValue::from_field_type(&buf, FieldDataType::ProtocolType, 1);
    assert!(r.is_ok());
    core::mem::forget(r);
}

/// MAC address: six bytes; text form is checked without the formatting stub in k_mac_text.
#[kani::proof]
#[kani::stub(core::fmt::write, no_fmt)]
fn k_mac() {
    const M: usize = 7;
    let buf: [u8; M] = kani::any();
    let n: usize = kani::any();
    kani::assume(n <= M);
    let len: u16 = kani::any();
    match FieldValue::from_field_type(&buf[..n], FieldDataType::MacAddr, len) {
        Ok((rem, v)) => {
            consumed!(rem, buf, n, 6usize);
            match &v {
                FieldValue::MacAddr(_) => {}
                _ => assert!(false),
            }
            kani::cover!(len == 6);
            core::mem::forget(v);
        }
        Err(e) => {
            assert!(n < 6);
            core::mem::forget(e);
        }
    }
}

/// Known-finding witness C09-mac: MAC re-export is the 17-byte text, not the 6 bytes.
#[kani::proof]
#[kani::stub(core::fmt::write, no_fmt)]
fn k_mac_reexport_kf() {
    let buf: [u8; 6] = kani::any();
    if let Ok((rem, v)) = FieldValue::from_field_type(&buf, FieldDataType::MacAddr, 6) {
        if let Ok(out) = v.to_be_bytes() {
            assert!(out.len() == 6);
            core::mem::forget(out);
        }
        core::mem::forget(v);
    }
}

/// Byte-vector kernels (Vec, and Unknown with parse_unknown_fields on): value = the bytes.
macro_rules! k_bytes {
    ($name:ident, $ty:expr) => {
        #[kani::proof]
        #[kani::stub(core::fmt::write, no_fmt)]
        fn $name() {
            const M: usize = 5;
            let buf: [u8; M] = kani::any();
            let n: usize = kani::any();
            kani::assume(n <= M);
            let len: u16 = kani::any();
            match FieldValue::from_field_type(&buf[..n], $ty, len) {
                Ok((rem, v)) => {
                    let w = len as usize;
                    consumed!(rem, buf, n, w);
                    match &v {
                        FieldValue::Vec(x) => {
                            assert!(x.len() == w);
                            let i: usize = kani::any();
                            if i < w {
                                assert!(x[i] == buf[i]);
                            }
                        }
                        _ => assert!(false),
                    }
                    reexport_exact!(v, buf, w);
                    kani::cover!(w == 0);
                    kani::cover!(w == 5);
                    core::mem::forget(v);
                }
                Err(e) => {
                    assert!(n < len as usize);
                    core::mem::forget(e);
                }
            }
        }
    };
}
k_bytes!(k_vec, FieldDataType::Vec);
#[cfg(not(feature = "off"))]
k_bytes!(k_unknown, FieldDataType::Unknown);

/// Feature off (C17): an unknown-typed field never decodes.
#[cfg(feature = "off")]
#[kani::proof]
#[kani::stub(core::fmt::write, no_fmt)]
fn k_unknown_off() {
    const M: usize = 5;
    let buf: [u8; M] = kani::any();
    let n: usize = kani::any();
    kani::assume(n <= M);
    let len: u16 = kani::any();
    let r = FieldValue::from_field_type(&buf[..n], FieldDataType::Unknown, len);
    assert!(r.is_err());
    kani::cover!(len == 0);
    core::mem::forget(r);
}

/// String kernel: consumption for every length; ASCII input decodes to the same text and
/// re-exports identically.  Non-UTF-8 input is replaced lossily (known finding C09-string).
#[kani::proof]
#[kani::stub(core::fmt::write, no_fmt)]
fn k_string() {
    const M: usize = 3;
    let buf: [u8; M] = kani::any();
    let n: usize = kani::any();
    kani::assume(n <= M);
    let len: u16 = kani::any();
    kani::assume(buf[0] < 128 && buf[1] < 128 && buf[2] < 128);
    match FieldValue::from_field_type(&buf[..n], FieldDataType::String, len) {
        Ok((rem, v)) => {
            let w = len as usize;
            consumed!(rem, buf, n, w);
            match &v {
                FieldValue::String(s) => {
                    assert!(s.len() == w);
                    let i: usize = kani::any();
                    if i < w {
                        assert!(s.as_bytes()[i] == buf[i]);
                    }
                }
                _ => assert!(false),
            }
            reexport_exact!(v, buf, w);
            kani::cover!(w == 3);
            core::mem::forget(v);
        }
        Err(e) => {
            assert!(n < len as usize);
            core::mem::forget(e);
        }
    }
}

/// Known-finding witness C09-string: a non-UTF-8 byte is replaced by U+FFFD (3 bytes).
#[kani::proof]
#[kani::stub(core::fmt::write, no_fmt)]
fn k_string_nonutf8_kf() {
    let buf: [u8; 1] = kani::any();
    kani::assume(buf[0] >= 128);
    if let Ok((rem, v)) = FieldValue::from_field_type(&buf, FieldDataType::String, 1) {
        reexport_exact!(v, buf, 1usize);
        core::mem::forget(v);
    }
}
