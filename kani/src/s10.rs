//! S/T layers for IPFIX: `ipfix::FlowSet::parse` (set header, length-4 arithmetic, set-id
//! dispatch, template / options-template records, cache update) from a small symbolic
//! cache state.
//!
//! Reference (RFC 7011 §3.3, §3.4): Set = `set_id(2) length(2) body(length-4)`.
//! Template record = `template_id(2) field_count(2)` followed by exactly `field_count`
//! field specifiers, each `E|ie_id(2) length(2) [enterprise_number(4) if E]`.
//! Options template record = `template_id(2) field_count(2) scope_field_count(2)` then
//! `field_count` specifiers.  Set id 2 = templates, 3 = options templates, > 255 = data.
use crate::common::*;
use netflow_parser::variable_versions::ipfix::{
    Data, FlowSet, FlowSetBody, IPFixParser, OptionsData, OptionsTemplate, Template, TemplateField,
};
use netflow_parser::variable_versions::ipfix_lookup::IPFixField;

/// field specifier at offset o as the reference reads it: (ie id without E bit, length,
/// enterprise number, bytes used)
pub fn spec_at(b: &[u8], o: usize) -> (u16, u16, Option<u32>, usize) {
    let t = be16(b, o);
    if t > 32767 {
        (t - 32768, be16(b, o + 2), Some(be32(b, o + 4)), 8)
    } else {
        (t, be16(b, o + 2), None, 4)
    }
}

pub fn field_matches(f: &TemplateField, b: &[u8], o: usize) -> bool {
    let (id, len, ent, _) = spec_at(b, o);
    f.field_type_number == id
        && f.field_length == len
        && f.enterprise_number == ent
        && f.field_type == if ent.is_some() { IPFixField::Enterprise } else { IPFixField::from(id) }
}

pub fn any_field(len: u16) -> TemplateField {
    let n: u16 = kani::any();
    kani::assume(n < 32768);
    TemplateField { field_type_number: n, field_type: IPFixField::from(n), field_length: len, enterprise_number: None }
}

/// S/T: template set (id 2) carrying ONE record of <= 2 field specifiers (plain or
/// enterprise) and <= 3 padding bytes, against a symbolic one-entry cache.
/// (More than one record per set is the known finding C05-multi-record-template-set;
/// a record cut short by the set length is C06-ipfix-truncated-template-cached.)
#[kani::proof]
#[kani::stub(core::fmt::write, no_fmt)]
fn s_ipfix_template() {
    const B: usize = 20; // 4 + 8 + 8
    const N: usize = 4 + B + 1;
    let mut p = IPFixParser::default();
    let c0: u16 = kani::any();
    let cf = any_field(kani::any());
    let cf_copy = cf.clone();
    p.templates.insert(c0, Template { template_id: c0, field_count: 1, fields: vec![cf], padding: vec![] });
    let mut buf: [u8; N] = kani::any();
    buf[0] = 0;
    buf[1] = 2;
    let len = be16(&buf, 2);
    kani::assume(len >= 8 && (len as usize) <= N - 1);
    let body = (len - 4) as usize;
    let fc = be16(&buf, 6) as usize;
    kani::assume(fc <= 2);
    // reference record length
    let mut rl = 4;
    let mut o = [0usize; 2];
    let mut j = 0;
    while j < 2 {
        if j < fc {
            o[j] = 4 + rl;
            rl += if buf[4 + rl] >= 128 { 8 } else { 4 };
        }
        j += 1;
    }
    kani::assume(rl <= body && body - rl < 4); // one complete record + padding shorter than a record
    let tid = be16(&buf, 4);
    let valid = (fc >= 1 && be16(&buf, o[0] + 2) > 0) || (fc >= 2 && be16(&buf, o[1] + 2) > 0);
    let r = FlowSet::parse(&buf, &mut p);
    match &r {
        Ok((rem, fs)) => {
            assert!(valid);
            assert!(rem.len() == N - 4 - body);
            assert!(fs.header.header_id == 2 && fs.header.length == len);
            match &fs.body {
                FlowSetBody::Template(t) => {
                    assert!(t.template_id == tid);
                    assert!(t.field_count as usize == fc);
                    assert!(t.fields.len() == fc);
                    if fc >= 1 {
                        assert!(field_matches(&t.fields[0], &buf, o[0]));
                    }
                    if fc >= 2 {
                        assert!(field_matches(&t.fields[1], &buf, o[1]));
                    }
                    assert!(t.padding.len() == body - rl);
                    let pi: usize = kani::any();
                    if pi < body - rl {
                        assert!(t.padding[pi] == buf[4 + rl + pi]);
                    }
                    // cache: new definition replaces / is added; the other entry is untouched
                    let ct = p.templates.get(&tid).unwrap();
                    assert!(*ct == *t);
                    if c0 != tid {
                        let old = p.templates.get(&c0).unwrap();
                        assert!(old.template_id == c0 && old.fields.len() == 1 && old.fields[0] == cf_copy);
                        assert!(p.templates.len() == 2);
                    } else {
                        assert!(p.templates.len() == 1);
                    }
                    kani::cover!(fc == 2 && t.fields[0].enterprise_number.is_some() && t.fields[1].enterprise_number.is_none());
                    kani::cover!(fc == 1 && body - rl == 3);
                    kani::cover!(c0 == tid);
                }
                _ => assert!(false),
            }
        }
        Err(_) => {
            // RFC 7011 has no "all lengths zero" rule; the library refuses such templates.
            // Not demanded either way by C05; what is demanded (C06): a refused set leaves
            // the cache as it was.
            assert!(!valid);
            assert!(p.templates.len() == 1);
            let old = p.templates.get(&c0).unwrap();
            assert!(old.fields.len() == 1 && old.fields[0] == cf_copy);
            kani::cover!(fc == 1);
        }
    }
    assert!(p.options_templates.len() == 0);
    core::mem::forget(r);
    core::mem::forget(p);
}

/// Known-finding witness C05-multi-record-template-set: two template records in one set.
#[kani::proof]
#[kani::stub(core::fmt::write, no_fmt)]
fn s_ipfix_template_two_records_kf() {
    const N: usize = 4 + 8 + 8;
    let mut p = IPFixParser::default();
    let mut buf: [u8; N] = kani::any();
    buf[0] = 0;
    buf[1] = 2;
    put16(&mut buf, 2, N as u16);
    put16(&mut buf, 6, 1); // record 1: one plain field
    put16(&mut buf, 14, 1); // record 2: one plain field
    kani::assume(buf[8] < 128 && buf[16] < 128);
    kani::assume(be16(&buf, 10) > 0 && be16(&buf, 18) > 0);
    let t1 = be16(&buf, 4);
    let t2 = be16(&buf, 12);
    kani::assume(t1 != t2);
    let r = FlowSet::parse(&buf, &mut p);
    // RFC 7011: both records are template definitions and both must be learned
    assert!(p.templates.contains_key(&t1) && p.templates.contains_key(&t2));
    if let Some(t) = p.templates.get(&t1) {
        assert!(t.fields.len() == 1);
    }
    core::mem::forget(r);
    core::mem::forget(p);
}

/// Known-finding witness C06-ipfix-truncated-template-cached: a template record whose
/// field_count announces more specifiers than the set holds is cached with fewer fields.
#[kani::proof]
#[kani::stub(core::fmt::write, no_fmt)]
fn s_ipfix_template_short_record_kf() {
    const N: usize = 4 + 4 + 4;
    let mut p = IPFixParser::default();
    let mut buf: [u8; N] = kani::any();
    buf[0] = 0;
    buf[1] = 2;
    put16(&mut buf, 2, N as u16);
    put16(&mut buf, 6, 2); // announces two specifiers, only one is present
    kani::assume(buf[8] < 128 && be16(&buf, 10) > 0);
    let r = FlowSet::parse(&buf, &mut p);
    assert!(p.templates.len() == 0); // C06: incomplete record must not change the cache
    core::mem::forget(r);
    core::mem::forget(p);
}

/// S/T: options-template set (id 3), one record, <= 2 plain/enterprise specifiers.
#[kani::proof]
#[kani::stub(core::fmt::write, no_fmt)]
fn s_ipfix_options_template() {
    const B: usize = 6 + 8 + 4 + 2;
    const N: usize = 4 + B;
    let mut p = IPFixParser::default();
    let mut buf: [u8; N] = kani::any();
    buf[0] = 0;
    buf[1] = 3;
    let len = be16(&buf, 2);
    kani::assume(len >= 10 && (len as usize) <= N);
    let body = (len - 4) as usize;
    let fc = be16(&buf, 6) as usize;
    let sc = be16(&buf, 8) as usize;
    kani::assume(fc <= 2 && sc <= fc); // RFC 7011: scope count <= field count
    let mut rl = 6;
    let mut o = [0usize; 2];
    let mut j = 0;
    while j < 2 {
        if j < fc {
            o[j] = 4 + rl;
            rl += if buf[4 + rl] >= 128 { 8 } else { 4 };
        }
        j += 1;
    }
    kani::assume(rl <= body && body - rl < 4);
    let tid = be16(&buf, 4);
    let valid = (fc >= 1 && be16(&buf, o[0] + 2) > 0) || (fc >= 2 && be16(&buf, o[1] + 2) > 0);
    let r = FlowSet::parse(&buf, &mut p);
    match &r {
        Ok((rem, fs)) => {
            assert!(valid);
            assert!(rem.len() == N - 4 - body);
            match &fs.body {
                FlowSetBody::OptionsTemplate(t) => {
                    assert!(t.template_id == tid);
                    assert!(t.field_count as usize == fc && t.scope_field_count as usize == sc);
                    assert!(t.fields.len() == fc);
                    if fc >= 1 {
                        assert!(field_matches(&t.fields[0], &buf, o[0]));
                    }
                    if fc >= 2 {
                        assert!(field_matches(&t.fields[1], &buf, o[1]));
                    }
                    assert!(t.padding.len() == body - rl);
                    let ct = p.options_templates.get(&tid).unwrap();
                    assert!(*ct == *t);
                    assert!(p.options_templates.len() == 1);
                    kani::cover!(fc == 2 && sc == 1);
                }
                _ => assert!(false),
            }
        }
        Err(_) => {
            assert!(!valid);
            assert!(p.options_templates.len() == 0);
        }
    }
    assert!(p.templates.len() == 0);
    core::mem::forget(r);
    core::mem::forget(p);
}

// exact-on-domain D models: every cached field is fixed-length >= 8 and the body has at
// most 7 bytes: the first field read fails, so the real Data/OptionsData::parse return Err.
pub fn data_model<'a>(i: &'a [u8], parser: &mut IPFixParser, id: u16) -> nom::IResult<&'a [u8], Data>
where
    'a: 'a,
{
    assert!(i.len() <= 7);
    assert!(parser.templates.contains_key(&id));
    Err(nom::Err::Error(nom::error::Error::new(i, nom::error::ErrorKind::Eof)))
}
pub fn options_data_model<'a>(i: &'a [u8], parser: &mut IPFixParser, id: u16) -> nom::IResult<&'a [u8], OptionsData>
where
    'a: 'a,
{
    assert!(i.len() <= 7);
    assert!(parser.options_templates.contains_key(&id));
    Err(nom::Err::Error(nom::error::Error::new(i, nom::error::ErrorKind::Eof)))
}

/// S: data-id sets (id written 300) vs symbolic cached template / options-template ids:
/// an id known to neither cache never reaches a decoder (C07); data never changes the
/// caches (C06).  (With the domain above a known id reaches its decoder, which fails.)
#[kani::proof]
#[kani::stub(core::fmt::write, no_fmt)]
#[kani::stub(netflow_parser::variable_versions::ipfix::Data::parse, data_model)]
#[kani::stub(netflow_parser::variable_versions::ipfix::OptionsData::parse, options_data_model)]
fn s_ipfix_data_dispatch() {
    const N: usize = 4 + 7;
    let mut p = IPFixParser::default();
    let tid: u16 = kani::any();
    let oid: u16 = kani::any();
    let l0: u16 = kani::any();
    kani::assume(l0 >= 8 && l0 != 65535);
    let tf = any_field(l0);
    let tf_copy = tf.clone();
    p.templates.insert(tid, Template { template_id: tid, field_count: 1, fields: vec![tf], padding: vec![] });
    p.options_templates.insert(oid, OptionsTemplate { template_id: oid, field_count: 1, scope_field_count: 1, fields: vec![any_field(l0)], padding: vec![] });
    let mut buf: [u8; N] = kani::any();
    buf[0] = 1;
    buf[1] = 44;
    let len = be16(&buf, 2);
    kani::assume(len as usize <= N);
    let r = FlowSet::parse(&buf, &mut p);
    assert!(r.is_err()); // domain: nothing decodable
    assert!(p.templates.len() == 1 && p.options_templates.len() == 1);
    let t = p.templates.get(&tid).unwrap();
    assert!(t.fields.len() == 1 && t.fields[0] == tf_copy);
    kani::cover!(tid == 300);
    kani::cover!(oid == 300 && tid != 300);
    kani::cover!(oid != 300 && tid != 300);
    core::mem::forget(r);
    core::mem::forget(p);
}
