//! S/T layers for IPFIX: `ipfix::FlowSet::parse` (set header, length-4 arithmetic, set-id
//! dispatch, template / options-template records, cache update) from a small symbolic
//! cache state.
//!
//! Reference (RFC 7011 §3.3, §3.4): Set = `set_id(2) length(2) body(length-4)`.
//! Template record = `template_id(2) field_count(2)` followed by exactly `field_count`
//! field specifiers, each `E|ie_id(2) length(2) [enterprise_number(4) if E]`.
//! Options template record = `template_id(2) field_count(2) scope_field_count(2)` then
//! `field_count` specifiers.  Set id 2 = templates, 3 = options templates, > 255 = data.
use crate::common::*;
use netflow_parser::variable_versions::ipfix::{
    Data, FlowSet, FlowSetBody, IPFixParser, OptionsData, OptionsTemplate, Template, TemplateField,
};
use netflow_parser::variable_versions::ipfix_lookup::IPFixField;

/// field specifier at offset o as the reference reads it: (ie id without E bit, length,
/// enterprise number, bytes used)
pub fn spec_at(b: &[u8], o: usize) -> (u16, u16, Option<u32>, usize) {
    let t = be16(b, o);
    if t > 32767 {
        (t - 32768, be16(b, o + 2), Some(be32(b, o + 4)), 8)
    } else {
        (t, be16(b, o + 2), None, 4)
    }
}

pub fn field_matches(f: &TemplateField, b: &[u8], o: usize) -> bool {
    let (id, len, ent, _) = spec_at(b, o);
    f.field_type_number == id
        && f.field_length == len
        && f.enterprise_number == ent
        && f.field_type == if ent.is_some() { IPFixField::Enterprise } else { IPFixField::from(id) }
}

/// field-wise equality (the derived `==` on Vec<u8>/Vec<TemplateField> goes through memcmp
/// and slice loops over heap pointers, which is what exhausted memory in SAT conversion)
pub fn tf_eq(a: &TemplateField, b: &TemplateField) -> bool {
    a.field_type_number == b.field_type_number
        && a.field_type == b.field_type
        && a.field_length == b.field_length
        && a.enterprise_number == b.enterprise_number
}
pub fn fields_eq(a: &Vec<TemplateField>, b: &Vec<TemplateField>) -> bool {
    if a.len() != b.len() {
        return false;
    }
    let mut ok = true;
    let mut j = 0;
    while j < 2 {
        if j < a.len() {
            ok = ok && tf_eq(&a[j], &b[j]);
        }
        j += 1;
    }
    ok
}
pub fn bytes_eq(a: &Vec<u8>, b: &Vec<u8>) -> bool {
    if a.len() != b.len() {
        return false;
    }
    let mut ok = true;
    let mut j = 0;
    while j < 3 {
        if j < a.len() {
            ok = ok && a[j] == b[j];
        }
        j += 1;
    }
    ok
}

pub fn any_field(len: u16) -> TemplateField {
    let n: u16 = kani::any();
    kani::assume(n < 32768);
    TemplateField { field_type_number: n, field_type: IPFixField::from(n), field_length: len, enterprise_number: None }
}

/// S/T: template set (id 2) carrying ONE record, one harness per *shape*: field count, which
/// specifiers are enterprise-specific (E bit) and the padding length are written; template
/// id, ie ids, field lengths, enterprise numbers, padding bytes and the cached entry are
/// symbolic.  (More than one record per set is the known finding
/// C05-multi-record-template-set; a record cut short by the set length is
/// C06-ipfix-truncated-template-cached.)
macro_rules! s_ipfix_template {
    ($name:ident, $fc:expr, $ent:expr, $pad:expr) => {
        s_ipfix_template!($name, $fc, $ent, $pad, 1, 0);
    };
    ($name:ident, $fc:expr, $ent:expr, $pad:expr, $cfc:expr, $cpad:expr) => {
        #[kani::proof]
        #[kani::stub(core::fmt::write, no_fmt)]
        fn $name() {
            const FC: usize = $fc;
            const ENT: [bool; 2] = $ent;
            const PAD: usize = $pad;
            const RL: usize = 4 + (if FC >= 1 { if ENT[0] { 8 } else { 4 } } else { 0 }) + (if FC >= 2 { if ENT[1] { 8 } else { 4 } } else { 0 });
            const B: usize = RL + PAD;
            const N: usize = 4 + B + 1;
            // cached entry: CFC symbolic plain fields, CPAD symbolic padding bytes (so the cached
            // definition may coincide with the incoming one in id, fields, or both)
            const CFC: usize = $cfc;
            const CPAD: usize = $cpad;
            let mut p = IPFixParser::default();
            let c0: u16 = kani::any();
            let cf = any_field(kani::any());
            let cf_copy = cf.clone();
            let cf1 = any_field(kani::any());
            let cf1_copy = cf1.clone();
            let cpad: [u8; 2] = kani::any();
            p.templates.insert(c0, Template {
                template_id: c0,
                field_count: CFC as u16,
                fields: if CFC == 2 { vec![cf, cf1] } else { vec![cf] },
                padding: if CPAD == 2 { vec![cpad[0], cpad[1]] } else { vec![] },
            });
            let mut buf: [u8; N] = kani::any();
            buf[0] = 0;
            buf[1] = 2;
            put16(&mut buf, 2, (4 + B) as u16);
            put16(&mut buf, 6, FC as u16);
            let mut o = [0usize; 2];
            let mut pos = 8;
            let mut j = 0;
            while j < FC {
                o[j] = pos;
                if ENT[j] {
                    buf[pos] |= 0x80;
                    pos += 8;
                } else {
                    buf[pos] &= 0x7f;
                    pos += 4;
                }
                j += 1;
            }
            let tid = be16(&buf, 4);
            let valid = (FC >= 1 && be16(&buf, o[0] + 2) > 0) || (FC >= 2 && be16(&buf, o[1] + 2) > 0);
            let r = FlowSet::parse(&buf, &mut p);
            match &r {
                Ok((rem, fs)) => {
                    // (a library that accepts all-zero-length templates, which RFC 7011 does not
                    // forbid, is not flagged: acceptance is only checked for what it caches)
                    assert!(rem.len() == 1);
                    assert!(fs.header.header_id == 2 && fs.header.length == (4 + B) as u16);
                    match &fs.body {
                        FlowSetBody::Template(t) => {
                            assert!(t.template_id == tid);
                            assert!(t.field_count as usize == FC);
                            assert!(t.fields.len() == FC);
                            let mut j = 0;
                            while j < FC {
                                assert!(field_matches(&t.fields[j], &buf, o[j]));
                                j += 1;
                            }
                            assert!(t.padding.len() == PAD);
                            let mut i = 0;
                            while i < PAD {
                                assert!(t.padding[i] == buf[4 + RL + i]);
                                i += 1;
                            }
                            // cache: new definition replaces / is added; the other entry is untouched
                            let ct = p.templates.get(&tid).unwrap();
                            assert!(ct.template_id == t.template_id && ct.field_count == t.field_count);
                            assert!(fields_eq(&ct.fields, &t.fields) && bytes_eq(&ct.padding, &t.padding));
                            if c0 != tid {
                                let old = p.templates.get(&c0).unwrap();
                                assert!(old.template_id == c0 && old.fields.len() == CFC && tf_eq(&old.fields[0], &cf_copy));
                                assert!(CFC < 2 || tf_eq(&old.fields[1], &cf1_copy));
                                assert!(old.padding.len() == CPAD);
                                assert!(p.templates.len() == 2);
                            } else {
                                assert!(p.templates.len() == 1);
                            }
                            kani::cover!(c0 == tid);
                            kani::cover!(c0 != tid);
                        }
                        _ => assert!(false),
                    }
                }
                Err(_) => {
                    // RFC 7011 has no "all lengths zero" rule; the library refuses such
                    // templates.  Not demanded either way by C05; what is demanded (C06):
                    // a refused set leaves the cache as it was.
                    assert!(!valid);
                    assert!(p.templates.len() == 1);
                    let old = p.templates.get(&c0).unwrap();
                    assert!(old.fields.len() == CFC && tf_eq(&old.fields[0], &cf_copy));
                }
            }
            assert!(p.options_templates.len() == 0);
            core::mem::forget(r);
            core::mem::forget(p);
        }
    };
}
s_ipfix_template!(s_ipfix_template_1p_pad3, 1, [false, false], 3);
s_ipfix_template!(s_ipfix_template_2p, 2, [false, false], 0);
s_ipfix_template!(s_ipfix_template_e_p, 2, [true, false], 2);
s_ipfix_template!(s_ipfix_template_p_e, 2, [false, true], 0);
// cached entry of the same shape as the incoming record (same field count; padding differs)
s_ipfix_template!(s_ipfix_template_2p_c2, 2, [false, false], 0, 2, 2);
s_ipfix_template!(s_ipfix_template_1p_c1pad, 1, [false, false], 0, 1, 2);

/// Known-finding witness C05-multi-record-template-set: two template records in one set.
#[kani::proof]
#[kani::stub(core::fmt::write, no_fmt)]
fn s_ipfix_template_two_records_kf() {
    const N: usize = 4 + 8 + 8;
    let mut p = IPFixParser::default();
    let mut buf: [u8; N] = kani::any();
    buf[0] = 0;
    buf[1] = 2;
    put16(&mut buf, 2, N as u16);
    put16(&mut buf, 6, 1); // record 1: one plain field
    put16(&mut buf, 14, 1); // record 2: one plain field
    kani::assume(buf[8] < 128 && buf[16] < 128);
    kani::assume(be16(&buf, 10) > 0 && be16(&buf, 18) > 0);
    let t1 = be16(&buf, 4);
    let t2 = be16(&buf, 12);
    kani::assume(t1 != t2);
    let r = FlowSet::parse(&buf, &mut p);
    // RFC 7011: both records are template definitions and both must be learned
    assert!(p.templates.contains_key(&t1) && p.templates.contains_key(&t2));
    if let Some(t) = p.templates.get(&t1) {
        assert!(t.fields.len() == 1);
    }
    core::mem::forget(r);
    core::mem::forget(p);
}

/// Known-finding witness C06-ipfix-truncated-template-cached: a template record whose
/// field_count announces more specifiers than the set holds is cached with fewer fields.
#[kani::proof]
#[kani::stub(core::fmt::write, no_fmt)]
fn s_ipfix_template_short_record_kf() {
    const N: usize = 4 + 4 + 4;
    let mut p = IPFixParser::default();
    let mut buf: [u8; N] = kani::any();
    buf[0] = 0;
    buf[1] = 2;
    put16(&mut buf, 2, N as u16);
    put16(&mut buf, 6, 2); // announces two specifiers, only one is present
    kani::assume(buf[8] < 128 && be16(&buf, 10) > 0);
    let r = FlowSet::parse(&buf, &mut p);
    assert!(p.templates.len() == 0); // C06: incomplete record must not change the cache
    core::mem::forget(r);
    core::mem::forget(p);
}

/// S/T: options-template set (id 3), one record; shapes written as above plus the scope count.
macro_rules! s_ipfix_options_template {
    ($name:ident, $fc:expr, $sc:expr, $ent:expr, $pad:expr) => {
        s_ipfix_options_template!($name, $fc, $sc, $ent, $pad, 0);
    };
    ($name:ident, $fc:expr, $sc:expr, $ent:expr, $pad:expr, $cfc:expr) => {
        #[kani::proof]
        #[kani::stub(core::fmt::write, no_fmt)]
        fn $name() {
            const FC: usize = $fc;
            const SC: usize = $sc;
            const ENT: [bool; 2] = $ent;
            const PAD: usize = $pad;
            const RL: usize = 6 + (if FC >= 1 { if ENT[0] { 8 } else { 4 } } else { 0 }) + (if FC >= 2 { if ENT[1] { 8 } else { 4 } } else { 0 });
            const B: usize = RL + PAD;
            const N: usize = 4 + B;
            // cached options template (CFC = 0: empty cache): symbolic id, scope count and fields,
            // so it may be a prefix / an extension / a copy of the incoming definition
            const CFC: usize = $cfc;
            let mut p = IPFixParser::default();
            let c0: u16 = kani::any();
            let csc: u16 = kani::any();
            let cf = any_field(kani::any());
            let cf_copy = cf.clone();
            let cf1 = any_field(kani::any());
            let cf1_copy = cf1.clone();
            if CFC > 0 {
                p.options_templates.insert(c0, OptionsTemplate {
                    template_id: c0,
                    field_count: CFC as u16,
                    scope_field_count: csc,
                    fields: if CFC == 2 { vec![cf, cf1] } else { vec![cf] },
                    padding: vec![],
                });
            }
            let mut buf: [u8; N] = kani::any();
            buf[0] = 0;
            buf[1] = 3;
            put16(&mut buf, 2, (4 + B) as u16);
            put16(&mut buf, 6, FC as u16);
            put16(&mut buf, 8, SC as u16);
            let mut o = [0usize; 2];
            let mut pos = 10;
            let mut j = 0;
            while j < FC {
                o[j] = pos;
                if ENT[j] {
                    buf[pos] |= 0x80;
                    pos += 8;
                } else {
                    buf[pos] &= 0x7f;
                    pos += 4;
                }
                j += 1;
            }
            let tid = be16(&buf, 4);
            let valid = (FC >= 1 && be16(&buf, o[0] + 2) > 0) || (FC >= 2 && be16(&buf, o[1] + 2) > 0);
            let r = FlowSet::parse(&buf, &mut p);
            match &r {
                Ok((rem, fs)) => {
                    // (a library that accepts all-zero-length templates, which RFC 7011 does not
                    // forbid, is not flagged: acceptance is only checked for what it caches)
                    assert!(rem.len() == 0);
                    match &fs.body {
                        FlowSetBody::OptionsTemplate(t) => {
                            assert!(t.template_id == tid);
                            assert!(t.field_count as usize == FC && t.scope_field_count as usize == SC);
                            assert!(t.fields.len() == FC);
                            let mut j = 0;
                            while j < FC {
                                assert!(field_matches(&t.fields[j], &buf, o[j]));
                                j += 1;
                            }
                            assert!(t.padding.len() == PAD);
                            let ct = p.options_templates.get(&tid).unwrap();
                            assert!(ct.template_id == t.template_id && ct.field_count == t.field_count && ct.scope_field_count == t.scope_field_count);
                            assert!(fields_eq(&ct.fields, &t.fields) && bytes_eq(&ct.padding, &t.padding));
                            if CFC > 0 && c0 != tid {
                                let old = p.options_templates.get(&c0).unwrap();
                                assert!(old.template_id == c0 && old.scope_field_count == csc && old.fields.len() == CFC);
                                assert!(tf_eq(&old.fields[0], &cf_copy) && (CFC < 2 || tf_eq(&old.fields[1], &cf1_copy)));
                                assert!(p.options_templates.len() == 2);
                            } else {
                                assert!(p.options_templates.len() == 1);
                            }
                            kani::cover!(CFC == 0 || c0 == tid);
                        }
                        _ => assert!(false),
                    }
                }
                Err(_) => {
                    assert!(!valid);
                    assert!(p.options_templates.len() == if CFC > 0 { 1 } else { 0 });
                    if CFC > 0 {
                        let old = p.options_templates.get(&c0).unwrap();
                        assert!(old.fields.len() == CFC && tf_eq(&old.fields[0], &cf_copy));
                    }
                }
            }
            assert!(p.templates.len() == 0);
            core::mem::forget(r);
            core::mem::forget(p);
        }
    };
}
s_ipfix_options_template!(s_ipfix_options_template_2_1, 2, 1, [false, false], 2);
s_ipfix_options_template!(s_ipfix_options_template_1_1_e, 1, 1, [true, false], 0);
// redefinition against a cached options template: one more field / one field fewer / same count
s_ipfix_options_template!(s_ipfix_options_template_2_1_c1, 2, 1, [false, false], 0, 1);
s_ipfix_options_template!(s_ipfix_options_template_1_1_c2, 1, 1, [false, false], 0, 2);
s_ipfix_options_template!(s_ipfix_options_template_2_1_c2, 2, 1, [false, false], 0, 2);

// exact-on-domain D models: every cached field is fixed-length >= 8 and the body has at
// most 7 bytes: the first field read fails, so the real Data/OptionsData::parse return Err.
pub fn data_model<'a>(i: &'a [u8], parser: &mut IPFixParser, id: u16) -> nom::IResult<&'a [u8], Data>
where
    'a: 'a,
{
    assert!(i.len() <= 7);
    assert!(parser.templates.contains_key(&id));
    Err(nom::Err::Error(nom::error::Error::new(i, nom::error::ErrorKind::Eof)))
}
pub fn options_data_model<'a>(i: &'a [u8], parser: &mut IPFixParser, id: u16) -> nom::IResult<&'a [u8], OptionsData>
where
    'a: 'a,
{
    assert!(i.len() <= 7);
    assert!(parser.options_templates.contains_key(&id));
    Err(nom::Err::Error(nom::error::Error::new(i, nom::error::ErrorKind::Eof)))
}

/// S: data-id sets (id written 300) vs symbolic cached template / options-template ids:
/// an id known to neither cache never reaches a decoder (C07); data never changes the
/// caches (C06).  (With the domain above a known id reaches its decoder, which fails.)
#[kani::proof]
#[kani::stub(core::fmt::write, no_fmt)]
#[kani::stub(netflow_parser::variable_versions::ipfix::Data::parse, data_model)]
#[kani::stub(netflow_parser::variable_versions::ipfix::OptionsData::parse, options_data_model)]
fn s_ipfix_data_dispatch() {
    const N: usize = 4 + 7;
    let mut p = IPFixParser::default();
    let tid: u16 = kani::any();
    let oid: u16 = kani::any();
    let l0: u16 = kani::any();
    kani::assume(l0 >= 8 && l0 != 65535);
    let tf = any_field(l0);
    let tf_copy = tf.clone();
    p.templates.insert(tid, Template { template_id: tid, field_count: 1, fields: vec![tf], padding: vec![] });
    p.options_templates.insert(oid, OptionsTemplate { template_id: oid, field_count: 1, scope_field_count: 1, fields: vec![any_field(l0)], padding: vec![] });
    let mut buf: [u8; N] = kani::any();
    buf[0] = 1;
    buf[1] = 44;
    let len = be16(&buf, 2);
    kani::assume(len as usize <= N);
    let r = FlowSet::parse(&buf, &mut p);
    assert!(r.is_err()); // domain: nothing decodable
    assert!(p.templates.len() == 1 && p.options_templates.len() == 1);
    let t = p.templates.get(&tid).unwrap();
    assert!(t.fields.len() == 1 && tf_eq(&t.fields[0], &tf_copy));
    kani::cover!(tid == 300);
    kani::cover!(oid == 300 && tid != 300);
    kani::cover!(oid != 300 && tid != 300);
    core::mem::forget(r);
    core::mem::forget(p);
}

/// Exact kernel model on the domain "unsigned field declared >= 8 bytes, fewer than 8 bytes
/// available": the read fails (illegal width => Fail, else Eof), nothing is consumed.
pub fn short_read_kernel_model<'a>(
    remaining: &'a [u8],
    ty: netflow_parser::variable_versions::data_number::FieldDataType,
    len: u16,
) -> nom::IResult<&'a [u8], netflow_parser::variable_versions::data_number::FieldValue> {
    assert!(ty == netflow_parser::variable_versions::data_number::FieldDataType::UnsignedDataNumber);
    assert!(len >= 8 && remaining.len() < 8);
    Err(nom::Err::Error(nom::error::Error::new(remaining, nom::error::ErrorKind::Eof)))
}

/// S with the REAL ipfix::Data::parse / OptionsData::parse on a data set that cannot be
/// decoded (body shorter than the record): the set is refused and - C06 - the template it
/// refers to is still cached afterwards, unchanged (templates are never evicted).
#[kani::proof]
#[kani::stub(core::fmt::write, no_fmt)]
#[kani::stub(netflow_parser::variable_versions::data_number::FieldValue::from_field_type, short_read_kernel_model)]
fn s_ipfix_undecodable_data_keeps_template() {
    const N: usize = 4 + 7;
    let mut p = IPFixParser::default();
    let l0: u16 = kani::any();
    kani::assume(l0 >= 8 && l0 != 65535);
    let is_opt: bool = kani::any();
    let f = TemplateField { field_type_number: 1, field_type: IPFixField::OctetDeltaCount, field_length: l0, enterprise_number: None };
    if is_opt {
        p.options_templates.insert(300, OptionsTemplate { template_id: 300, field_count: 1, scope_field_count: 1, fields: vec![f], padding: vec![] });
    } else {
        p.templates.insert(300, Template { template_id: 300, field_count: 1, fields: vec![f], padding: vec![] });
    }
    let mut buf: [u8; N] = kani::any();
    buf[0] = 1;
    buf[1] = 44;
    let len = be16(&buf, 2);
    kani::assume(len as usize <= N);
    let r = FlowSet::parse(&buf, &mut p);
    assert!(r.is_err());
    if is_opt {
        assert!(p.options_templates.len() == 1 && p.templates.len() == 0);
        let t = p.options_templates.get(&300).unwrap();
        assert!(t.fields.len() == 1 && t.fields[0].field_length == l0);
    } else {
        assert!(p.templates.len() == 1 && p.options_templates.len() == 0);
        let t = p.templates.get(&300).unwrap();
        assert!(t.fields.len() == 1 && t.fields[0].field_length == l0);
    }
    kani::cover!(is_opt && len == 4);
    kani::cover!(!is_opt && len == 11);
    core::mem::forget(r);
    core::mem::forget(p);
}
