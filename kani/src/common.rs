//! Shared helpers: formatting stub, big-endian readers, reference tables.

/// Stub for `core::fmt::write`: error *text* is outside every claim (DESIGN §3.3).
pub fn no_fmt(_o: &mut dyn core::fmt::Write, _a: core::fmt::Arguments<'_>) -> core::fmt::Result {
    Ok(())
}

#[inline(always)]
pub fn be16(b: &[u8], o: usize) -> u16 {
    ((b[o] as u16) << 8) | b[o + 1] as u16
}
#[inline(always)]
pub fn be32(b: &[u8], o: usize) -> u32 {
    ((b[o] as u32) << 24) | ((b[o + 1] as u32) << 16) | ((b[o + 2] as u32) << 8) | b[o + 3] as u32
}
#[inline(always)]
pub fn put16(b: &mut [u8], o: usize, v: u16) {
    b[o] = (v >> 8) as u8;
    b[o + 1] = v as u8;
}
