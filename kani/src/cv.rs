//! C13: common view of V9 / IPFIX results.  Inputs are result structures of the shape the
//! decoder layers are shown to produce (K: which FieldValue variant a data type yields;
//! D: V9 = one map per record keyed by field index, IPFIX = one single-entry map per field).
use crate::common::*;
use netflow_parser::protocol::ProtocolTypes;
use netflow_parser::variable_versions::data_number::{DataNumber, FieldValue};
use netflow_parser::variable_versions::ipfix_lookup::IPFixField;
use netflow_parser::variable_versions::v9_lookup::V9Field;
use netflow_parser::variable_versions::{ipfix, v9};
use netflow_parser::verif_shim::VMap;
use netflow_parser::netflow_common::NetflowCommon;
use netflow_parser::{NetflowPacket, NetflowParser};
use std::net::{IpAddr, Ipv4Addr, Ipv6Addr};

fn v9_packet(records: Vec<VMap<usize, (V9Field, FieldValue)>>, up: u32) -> v9::V9 {
    let d = v9::Data { fields: records, padding: Vec::new() };
    let fs = v9::FlowSet { header: v9::FlowSetHeader { flowset_id: 256, length: kani::any() }, body: v9::FlowSetBody::Data(d) };
    v9::V9 {
        header: v9::Header { version: 9, count: 1, sys_up_time: up, unix_secs: kani::any(), sequence_number: kani::any(), source_id: kani::any() },
        flowsets: vec![fs],
    }
}

/// V9: records with IPv4 or IPv6 source, optional IPv4 destination and optional ports; the
/// shape (address family, which fields are present, field order, record count) is written
/// per harness, the values are symbolic.  One flow per record, in order; present fields
/// projected, absent ones None.  Calls `NetflowCommon::from(&V9)` (the conversion itself);
/// the dispatch through `NetflowPacket::as_netflow_common` is covered by the V5/V7 harnesses.
macro_rules! cv_v9_addr_ports {
    ($name:ident, $v6:expr, $has_dst:expr, $has_port:expr, $swap:expr, $nrec:expr) => {
        #[kani::proof]
        #[kani::stub(core::fmt::write, no_fmt)]
        fn $name() {
            const V6: bool = $v6;
            const HAS_DST: bool = $has_dst;
            const HAS_PORT: bool = $has_port;
            const SWAP: bool = $swap;
            const NREC: usize = $nrec;
            let up: u32 = kani::any();
            let a4: u32 = kani::any();
            let b4: u32 = kani::any();
            let a6: u128 = kani::any();
            let sp: u16 = kani::any();
            let dp: u16 = kani::any();
            let mut recs = Vec::new();
            let mut r = 0;
            while r < NREC {
                let mut m = VMap::new();
                // record r uses a+r so that the order of records is observable
                let src = if V6 { (V9Field::Ipv6SrcAddr, FieldValue::Ip6Addr(Ipv6Addr::from(a6.wrapping_add(r as u128)))) } else { (V9Field::Ipv4SrcAddr, FieldValue::Ip4Addr(Ipv4Addr::from(a4.wrapping_add(r as u32)))) };
                let (k_src, k_port) = if SWAP { (1usize, 0usize) } else { (0usize, 1usize) };
                if SWAP && HAS_PORT {
                    m.insert(k_port, (V9Field::L4SrcPort, FieldValue::DataNumber(DataNumber::U16(sp))));
                    m.insert(k_src, src);
                } else {
                    m.insert(k_src, src);
                    if HAS_PORT {
                        m.insert(k_port, (V9Field::L4SrcPort, FieldValue::DataNumber(DataNumber::U16(sp))));
                    }
                }
                if HAS_PORT {
                    m.insert(2usize, (V9Field::L4DstPort, FieldValue::DataNumber(DataNumber::U16(dp))));
                }
                if HAS_DST {
                    m.insert(3usize, (V9Field::Ipv4DstAddr, FieldValue::Ip4Addr(Ipv4Addr::from(b4))));
                }
                recs.push(m);
                r += 1;
            }
            let d = v9::Data { fields: recs, padding: Vec::new() };
            let fs = v9::FlowSet { header: v9::FlowSetHeader { flowset_id: 256, length: kani::any() }, body: v9::FlowSetBody::Data(d) };
            let pkt = v9::V9 {
                header: v9::Header { version: 9, count: 1, sys_up_time: up, unix_secs: kani::any(), sequence_number: kani::any(), source_id: kani::any() },
                flowsets: vec![fs],
            };
            let c = NetflowCommon::from(&pkt);
            assert!(c.version == 9 && c.timestamp == up);
            assert!(c.flowsets.len() == NREC);
            let mut r = 0;
            while r < NREC {
                let f = &c.flowsets[r];
                if V6 {
                    assert!(f.src_addr == Some(IpAddr::V6(Ipv6Addr::from(a6.wrapping_add(r as u128)))));
                } else {
                    assert!(f.src_addr == Some(IpAddr::V4(Ipv4Addr::from(a4.wrapping_add(r as u32)))));
                }
                assert!(f.dst_addr == if HAS_DST { Some(IpAddr::V4(Ipv4Addr::from(b4))) } else { None });
                assert!(f.src_port == if HAS_PORT { Some(sp) } else { None });
                assert!(f.dst_port == if HAS_PORT { Some(dp) } else { None });
                assert!(f.protocol_number.is_none() && f.protocol_type.is_none());
                assert!(f.first_seen.is_none() && f.last_seen.is_none());
                assert!(f.src_mac.is_none() && f.dst_mac.is_none());
                r += 1;
            }
            core::mem::forget(c);
            core::mem::forget(pkt);
        }
    };
}
cv_v9_addr_ports!(cv_v9_v4_full_2rec, false, true, true, false, 2);
cv_v9_addr_ports!(cv_v9_v6_ports_swapped, true, false, true, true, 1);
cv_v9_addr_ports!(cv_v9_v4_only, false, false, false, false, 1);

/// V9: MAC addresses (decoded as text by the MAC kernel) are projected as that text.
#[kani::proof]
#[kani::stub(core::fmt::write, no_fmt)]
fn cv_v9_mac() {
    let mut m = VMap::new();
    m.insert(0usize, (V9Field::InSrcMac, FieldValue::MacAddr(String::from("0A:1B"))));
    m.insert(1usize, (V9Field::InDstMac, FieldValue::MacAddr(String::from("2C:3D"))));
    let pkt = v9_packet(vec![m], 7);
    let c = NetflowCommon::from(&pkt);
    assert!(c.flowsets.len() == 1);
    let f = &c.flowsets[0];
    assert!(f.src_mac.as_deref() == Some("0A:1B"));
    assert!(f.dst_mac.as_deref() == Some("2C:3D"));
    assert!(f.src_addr.is_none());
    core::mem::forget(c);
    core::mem::forget(pkt);
}

/// Known-finding witness C13-v9-protocol-times: PROTOCOL decodes to FieldValue::ProtocolType
/// and FIRST/LAST_SWITCHED to FieldValue::Duration (K layer), which the common view cannot
/// convert: the fields come back None although present.
#[kani::proof]
#[kani::stub(core::fmt::write, no_fmt)]
fn cv_v9_protocol_times_kf() {
    let n: u8 = kani::any();
    kani::assume(n >= 2 && n <= 143);
    let ms: u32 = kani::any();
    let mut m = VMap::new();
    m.insert(0usize, (V9Field::Protocol, FieldValue::ProtocolType(ProtocolTypes::from(n))));
    m.insert(1usize, (V9Field::FirstSwitched, FieldValue::Duration(std::time::Duration::from_millis(ms as u64))));
    let pkt = v9_packet(vec![m], 7);
    let c = NetflowCommon::from(&pkt);
    let f = &c.flowsets[0];
    assert!(f.protocol_number == Some(n));
    assert!(f.first_seen == Some(ms));
    core::mem::forget(c);
    core::mem::forget(pkt);
}

fn ipfix_packet(maps: Vec<VMap<usize, (IPFixField, FieldValue)>>, et: u32) -> ipfix::IPFix {
    let d = ipfix::Data { fields: maps, padding: Vec::new() };
    let fs = ipfix::FlowSet { header: ipfix::FlowSetHeader { header_id: 256, length: kani::any() }, body: ipfix::FlowSetBody::Data(d) };
    ipfix::IPFix {
        header: ipfix::Header { version: 10, length: kani::any(), export_time: et, sequence_number: kani::any(), observation_domain_id: kani::any() },
        flowsets: vec![fs],
    }
}

/// IPFIX, single-field templates (the only case in which today's one-map-per-field result
/// coincides with one map per record): one flow per record, field projected.  The field
/// kind and record count are written per harness.
macro_rules! cv_ipfix_single_field {
    ($name:ident, $which:expr, $nrec:expr) => {
        #[kani::proof]
        #[kani::stub(core::fmt::write, no_fmt)]
        fn $name() {
            const WHICH: u8 = $which;
            const NREC: usize = $nrec;
            let et: u32 = kani::any();
            let a4: u32 = kani::any();
            let a6: u128 = kani::any();
            let port: u16 = kani::any();
            let proto: u8 = kani::any();
            let up: u32 = kani::any();
            let mut maps = Vec::new();
            let mut r = 0;
            while r < NREC {
                let mut m = VMap::new();
                let e = match WHICH {
                    0 => (IPFixField::SourceIpv4address, FieldValue::Ip4Addr(Ipv4Addr::from(a4.wrapping_add(r as u32)))),
                    1 => (IPFixField::DestinationIpv6address, FieldValue::Ip6Addr(Ipv6Addr::from(a6.wrapping_add(r as u128)))),
                    2 => (IPFixField::DestinationTransportPort, FieldValue::DataNumber(DataNumber::U16(port.wrapping_add(r as u16)))),
                    3 => (IPFixField::ProtocolIdentifier, FieldValue::DataNumber(DataNumber::U8(proto))),
                    _ => (IPFixField::FlowStartSysUpTime, FieldValue::DataNumber(DataNumber::U32(up))),
                };
                m.insert(0usize, e);
                maps.push(m);
                r += 1;
            }
            let pkt = ipfix_packet(maps, et);
            let c = NetflowCommon::from(&pkt);
            assert!(c.version == 10 && c.timestamp == et);
            assert!(c.flowsets.len() == NREC);
            let mut r = 0;
            while r < NREC {
                let f = &c.flowsets[r];
                assert!(f.src_addr == if WHICH == 0 { Some(IpAddr::V4(Ipv4Addr::from(a4.wrapping_add(r as u32)))) } else { None });
                assert!(f.dst_addr == if WHICH == 1 { Some(IpAddr::V6(Ipv6Addr::from(a6.wrapping_add(r as u128)))) } else { None });
                assert!(f.dst_port == if WHICH == 2 { Some(port.wrapping_add(r as u16)) } else { None });
                assert!(f.src_port.is_none());
                assert!(f.protocol_number == if WHICH == 3 { Some(proto) } else { None });
                assert!(f.protocol_type == if WHICH == 3 { Some(ProtocolTypes::from(proto)) } else { None });
                assert!(f.first_seen == if WHICH == 4 { Some(up) } else { None });
                assert!(f.last_seen.is_none());
                r += 1;
            }
            core::mem::forget(c);
            core::mem::forget(pkt);
        }
    };
}
cv_ipfix_single_field!(cv_ipfix_src4_2rec, 0, 2);
cv_ipfix_single_field!(cv_ipfix_dst6, 1, 1);
cv_ipfix_single_field!(cv_ipfix_port_2rec, 2, 2);
cv_ipfix_single_field!(cv_ipfix_proto, 3, 1);
cv_ipfix_single_field!(cv_ipfix_start, 4, 1);

/// Known-finding witness C13-ipfix-flow-per-field: a two-field record (two single-entry
/// maps, as ipfix::FieldParser produces) becomes two flows instead of one.
#[kani::proof]
#[kani::stub(core::fmt::write, no_fmt)]
fn cv_ipfix_two_fields_kf() {
    let a4: u32 = kani::any();
    let port: u16 = kani::any();
    let mut m0 = VMap::new();
    m0.insert(0usize, (IPFixField::SourceIpv4address, FieldValue::Ip4Addr(Ipv4Addr::from(a4))));
    let mut m1 = VMap::new();
    m1.insert(1usize, (IPFixField::SourceTransportPort, FieldValue::DataNumber(DataNumber::U16(port))));
    let pkt = ipfix_packet(vec![m0, m1], 1);
    let c = NetflowCommon::from(&pkt);
    assert!(c.flowsets.len() == 1);
    core::mem::forget(c);
    core::mem::forget(pkt);
}

/// C13 (last clause): parse_bytes_as_netflow_common_flowsets == concatenation of the flows
/// of the non-error packets.  Buffer: one complete V5 packet (count written = 1, real
/// decoder), then a V7 header-only packet, then one stray byte (=> Error element).
#[kani::proof]
#[kani::stub(core::fmt::write, no_fmt)]
fn cv_flowsets_concat() {
    const N: usize = 24 + 48 + 24 + 1;
    let mut b: [u8; N] = kani::any();
    b[0] = 0;
    b[1] = 5;
    b[2] = 0;
    b[3] = 1;
    b[72] = 0;
    b[73] = 7;
    b[74] = 0;
    b[75] = 0;
    let mut p = NetflowParser::default();
    let flows = p.parse_bytes_as_netflow_common_flowsets(&b);
    assert!(flows.len() == 1);
    let f = &flows[0];
    assert!(f.src_addr == Some(IpAddr::V4(Ipv4Addr::from(be32(&b, 24)))));
    assert!(f.dst_addr == Some(IpAddr::V4(Ipv4Addr::from(be32(&b, 28)))));
    assert!(f.src_port == Some(be16(&b, 24 + 32)));
    assert!(f.dst_port == Some(be16(&b, 24 + 34)));
    assert!(f.protocol_number == Some(b[24 + 38]));
    assert!(f.first_seen == Some(be32(&b, 24 + 24)));
    assert!(f.last_seen == Some(be32(&b, 24 + 28)));
    core::mem::forget(flows);
    core::mem::forget(p);
}
