//! D layer, NetFlow V9: `v9::Data::parse` (record count = floor(body/record size), per-record
//! field loop, stop rule, padding) and `v9::OptionsData::parse`, with the field kernel
//! replaced by a model that is *exact* for the only data type these harnesses use
//! (UnsignedDataNumber; exactness is what k::k_unsigned proves for every length).
//!
//! Reference (RFC 3954 §5.3): a data FlowSet body is a sequence of records, each the
//! concatenation of the template's fields at their declared lengths, followed by padding
//! shorter than one record.
use crate::common::*;
use crate::km::*;
use netflow_parser::variable_versions::data_number::{DataNumber, FieldDataType, FieldValue};
use netflow_parser::variable_versions::v9::{
    Data, OptionDataField, OptionsData, OptionsTemplate, OptionsTemplateScopeField, ScopeDataField,
    Template, TemplateField, V9Parser,
};
use netflow_parser::variable_versions::v9_lookup::{ScopeFieldType, V9Field};



fn legal(l: u16) -> bool {
    l >= 1 && l <= 4
}

fn two_field_template(l0: u16, l1: u16) -> Template {
    Template {
        template_id: 256,
        field_count: 2,
        fields: vec![
            TemplateField { field_type_number: 1, field_type: V9Field::InBytes, field_length: l0 },
            TemplateField { field_type_number: 2, field_type: V9Field::InPkts, field_length: l1 },
        ],
    }
}

/// D: two unsigned fields with symbolic declared lengths 0..=5 (0 and 5 are illegal widths),
/// full-length 7-byte body, at most 2 records.  Decides record count, per-record values at
/// the right offsets, field order/keys/types, padding bytes, and the stop rule.
#[kani::proof]
#[kani::stub(core::fmt::write, no_fmt)]
#[kani::stub(netflow_parser::variable_versions::data_number::FieldValue::from_field_type, unsigned_kernel_model)]
fn d_v9_two_fields() {
    const N: usize = 7;
    let l0: u16 = kani::any();
    let l1: u16 = kani::any();
    kani::assume(l0 <= 5 && l1 <= 5);
    let size = (l0 + l1) as usize;
    kani::assume(size >= 3); // <= 2 records in 7 bytes; size 0 is the C01 finding (separate harness)
    let mut p = V9Parser::default();
    p.templates.insert(256, two_field_template(l0, l1));
    let buf: [u8; N] = kani::any();
    let r = Data::parse(&buf, &mut p, 256);
    match &r {
        Ok((rem, d)) => {
            assert!(rem.is_empty());
            let recs = if legal(l0) && legal(l1) { N / size } else { 0 };
            assert!(d.fields.len() == recs);
            assert!(d.padding.len() == N - recs * size);
            let pi: usize = kani::any();
            if pi < d.padding.len() {
                assert!(d.padding[pi] == buf[recs * size + pi]);
            }
            let mut i = 0;
            while i < 2 {
                if i < recs {
                    let m = &d.fields[i];
                    assert!(m.len() == 2);
                    let (t0, v0) = m.get(&0).unwrap();
                    let (t1, v1) = m.get(&1).unwrap();
                    assert!(*t0 == V9Field::InBytes && *t1 == V9Field::InPkts);
                    assert!(*v0 == FieldValue::DataNumber(num_at(&buf, i * size, l0 as usize)));
                    assert!(*v1 == FieldValue::DataNumber(num_at(&buf, i * size + l0 as usize, l1 as usize)));
                }
                i += 1;
            }
            kani::cover!(recs == 2 && d.padding.len() == 1);
            kani::cover!(recs == 1 && d.padding.len() == 2);
            kani::cover!(recs == 0 && l0 == 0);
        }
        Err(_) => assert!(false),
    }
    assert!(p.templates.len() == 1);
    core::mem::forget(r);
    core::mem::forget(p);
}

/// D: one 2-byte field, 7-byte body: three records and one padding byte.
#[kani::proof]
#[kani::stub(core::fmt::write, no_fmt)]
#[kani::stub(netflow_parser::variable_versions::data_number::FieldValue::from_field_type, unsigned_kernel_model)]
fn d_v9_three_records() {
    const N: usize = 7;
    let mut p = V9Parser::default();
    p.templates.insert(256, Template {
        template_id: 256,
        field_count: 1,
        fields: vec![TemplateField { field_type_number: 7, field_type: V9Field::L4SrcPort, field_length: 2 }],
    });
    let buf: [u8; N] = kani::any();
    let r = Data::parse(&buf, &mut p, 256);
    match &r {
        Ok((rem, d)) => {
            assert!(rem.is_empty());
            assert!(d.fields.len() == 3);
            assert!(d.padding.len() == 1 && d.padding[0] == buf[6]);
            let mut i = 0;
            while i < 3 {
                let m = &d.fields[i];
                assert!(m.len() == 1);
                let (t, v) = m.get(&0).unwrap();
                assert!(*t == V9Field::L4SrcPort);
                assert!(*v == FieldValue::DataNumber(DataNumber::U16(be16(&buf, 2 * i))));
                i += 1;
            }
        }
        Err(_) => assert!(false),
    }
    core::mem::forget(r);
    core::mem::forget(p);
}

/// C01 witness (fixed by "fix: v9 zero-size template"): a cached template whose fields add
/// up to zero bytes must not crash the data decoder.  After the repair this passes for
/// every body; should the division by zero come back it fails again.
macro_rules! d_v9_zero_size_template {
    ($name:ident, $fc:expr) => {
        #[kani::proof]
        #[kani::stub(core::fmt::write, no_fmt)]
        #[kani::stub(netflow_parser::variable_versions::data_number::FieldValue::from_field_type, unsigned_kernel_model)]
        fn $name() {
            const N: usize = 3;
            let mut p = V9Parser::default();
            let mut fields = Vec::new();
            let mut k = 0;
            while k < $fc {
                fields.push(TemplateField { field_type_number: 1, field_type: V9Field::InBytes, field_length: 0 });
                k += 1;
            }
            p.templates.insert(256, Template { template_id: 256, field_count: $fc, fields });
            let buf: [u8; N] = kani::any();
            let r = Data::parse(&buf, &mut p, 256);
            // no crash is the property (C01); zero-size records cannot produce data
            match &r {
                Ok((rem, d)) => {
                    assert!(d.fields.len() == 0);
                    assert!(d.padding.len() == N);
                }
                Err(_) => {}
            }
            core::mem::forget(r);
            core::mem::forget(p);
        }
    };
}
d_v9_zero_size_template!(d_v9_zero_size_template_0, 0);
d_v9_zero_size_template!(d_v9_zero_size_template_1, 1);
d_v9_zero_size_template!(d_v9_zero_size_template_2, 2);


/// C17: with the feature off, a V9 data flowset governed by a template containing a field
/// type the library does not know yields no decoded record.
#[cfg(feature = "off")]
#[kani::proof]
#[kani::stub(core::fmt::write, no_fmt)]
#[kani::stub(netflow_parser::variable_versions::data_number::FieldValue::from_field_type, unknown_off_kernel_model)]
fn d_v9_unknown_field_off() {
    let n: u16 = kani::any();
    kani::assume(V9Field::from(n) == V9Field::Unknown);
    let l: u16 = kani::any();
    kani::assume(l >= 1 && l <= 3);
    let mut p = V9Parser::default();
    p.templates.insert(256, Template {
        template_id: 256,
        field_count: 1,
        fields: vec![TemplateField { field_type_number: n, field_type: V9Field::from(n), field_length: l }],
    });
    let buf: [u8; 6] = kani::any();
    let r = Data::parse(&buf, &mut p, 256);
    if let Ok((rem, d)) = &r {
        assert!(d.fields.len() == 0);
    }
    kani::cover!(r.is_ok());
    core::mem::forget(r);
    core::mem::forget(p);
}
