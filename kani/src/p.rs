//! P layer: `V9::parse` (header, count-bounded flowset loop, early stop on empty input,
//! error propagation) and `IPFix::parse` (header, length-16 window, greedy set loop),
//! with `FlowSet::parse` replaced by models that are exact on the harness domain and that
//! `assume` that domain.
use crate::common::*;
use netflow_parser::variable_versions::{ipfix, v9};
use netflow_parser::variable_versions::ipfix_lookup::IPFixField;

fn verify_err<'a, T>(i: &'a [u8]) -> nom::IResult<&'a [u8], T> {
    Err(nom::Err::Error(nom::error::Error::new(i, nom::error::ErrorKind::Verify)))
}

fn tail(i: &[u8], from: usize, n: usize) -> Vec<u8> {
    let mut v = Vec::with_capacity(4);
    let mut k = 0;
    while k < 3 {
        if k < n {
            v.push(i[from + k]);
        }
        k += 1;
    }
    v
}

/// V9 domain: empty caches; flowset id 0 or 1 with length <= 7 (body < 4 bytes: no
/// (options) template record fits, body is padding); any other id is unknown => Err.
pub fn v9_flowset_model<'a>(i: &'a [u8], parser: &mut v9::V9Parser) -> nom::IResult<&'a [u8], v9::FlowSet>
where
    'a: 'a,
{
    assert!(parser.templates.len() == 0 && parser.options_templates.len() == 0);
    if i.len() < 4 {
        return Err(nom::Err::Error(nom::error::Error::new(i, nom::error::ErrorKind::Eof)));
    }
    let id = be16(i, 0);
    let len = be16(i, 2);
    let body = if len < 4 { 0 } else { (len - 4) as usize };
    if i.len() < 4 + body {
        return Err(nom::Err::Error(nom::error::Error::new(i, nom::error::ErrorKind::Eof)));
    }
    if id > 1 {
        return verify_err(i);
    }
    kani::assume(body < 4);
    let header = v9::FlowSetHeader { flowset_id: id, length: len };
    let padding = tail(i, 4, body);
    let b = if id == 0 {
        v9::FlowSetBody::Template(v9::Templates { templates: Vec::new(), padding })
    } else {
        v9::FlowSetBody::OptionsTemplate(v9::OptionsTemplates { templates: Vec::new(), padding })
    };
    Ok((&i[4 + body..], v9::FlowSet { header, body: b }))
}

/// P (V9), one harness per shape: `count` and the flowset sequence are written (kind 1 =
/// id 0 flowset of 6 bytes, kind 2 = id 1 flowset of 7 bytes, kind 3 = unknown data id
/// 300 of 8 bytes, kind 4 = id 0 flowset announcing 40 bytes, 0 = none), `$tail` extra
/// bytes follow; header words and padding bytes are symbolic.  Decides: header as sent;
/// flowsets = the first `count` flowsets (fewer if the buffer ends first); consumed = 20 +
/// sum(length); a failing flowset (unknown id, truncated, stray bytes shorter than a
/// flowset header while count is not exhausted) fails the whole packet (C07 for V9).
macro_rules! p_v9_packet {
    ($name:ident, $count:expr, $kinds:expr, $tail:expr) => {
        #[kani::proof]
        #[kani::stub(core::fmt::write, no_fmt)]
        #[kani::stub(netflow_parser::variable_versions::v9::FlowSet::parse, v9_flowset_model)]
        fn $name() {
            const COUNT: u16 = $count;
            const KINDS: [u8; 3] = $kinds;
            const TAIL: usize = $tail;
            const fn klen(k: u8) -> usize {
                match k {
                    1 => 6,
                    2 => 7,
                    3 => 8,
                    4 => 6,
                    5 => 12,
                    _ => 0,
                }
            }
            const N: usize = 18 + klen(KINDS[0]) + klen(KINDS[1]) + klen(KINDS[2]) + TAIL;
            let mut buf: [u8; N] = kani::any();
            put16(&mut buf, 0, COUNT);
            let mut pos = 18;
            let mut i = 0;
            while i < 3 {
                match KINDS[i] {
                    1 => {
                        put16(&mut buf, pos, 0);
                        put16(&mut buf, pos + 2, 6);
                    }
                    2 => {
                        put16(&mut buf, pos, 1);
                        put16(&mut buf, pos + 2, 7);
                    }
                    3 => {
                        put16(&mut buf, pos, 300);
                        put16(&mut buf, pos + 2, 8);
                    }
                    4 => {
                        put16(&mut buf, pos, 0);
                        put16(&mut buf, pos + 2, 40);
                    }
                    5 => {
                        // template flowset with one 1-field record (id and field symbolic)
                        put16(&mut buf, pos, 0);
                        put16(&mut buf, pos + 2, 12);
                        put16(&mut buf, pos + 6, 1);
                    }
                    _ => {}
                }
                pos += klen(KINDS[i]);
                i += 1;
            }
            // reference walk
            let mut pos = 18usize;
            let mut k = 0usize;
            let mut offs = [0usize; 3];
            let mut fail = false;
            let mut i = 0;
            while i < 3 {
                if i < COUNT as usize && !fail && pos < N {
                    if N - pos < 4 {
                        fail = true;
                    } else {
                        let id = be16(&buf, pos);
                        let len = be16(&buf, pos + 2);
                        let body = if len < 4 { 0 } else { (len - 4) as usize };
                        if N - pos < 4 + body || id > 1 {
                            fail = true;
                        } else {
                            offs[k] = pos;
                            k += 1;
                            pos += 4 + body;
                        }
                    }
                }
                i += 1;
            }
            let mut p = v9::V9Parser::default();
            let r = v9::V9::parse(&buf, &mut p);
            match &r {
                Ok((rem, pkt)) => {
                    assert!(!fail);
                    assert!(rem.len() == N - pos);
                    assert!(pkt.header.version == 9 && pkt.header.count == COUNT);
                    assert!(pkt.header.sys_up_time == be32(&buf, 2));
                    assert!(pkt.header.unix_secs == be32(&buf, 6));
                    assert!(pkt.header.sequence_number == be32(&buf, 10));
                    assert!(pkt.header.source_id == be32(&buf, 14));
                    assert!(pkt.flowsets.len() == k);
                    let mut j = 0;
                    while j < 3 {
                        if j < k {
                            let fs = &pkt.flowsets[j];
                            assert!(fs.header.flowset_id == be16(&buf, offs[j]));
                            assert!(fs.header.length == be16(&buf, offs[j] + 2));
                        }
                        j += 1;
                    }
                }
                Err(_) => {
                    assert!(fail);
                    // C07/C06: a rejected packet whose first flowset is refused has taught
                    // the parser nothing (in particular not a template that only appears
                    // after the refused data flowset)
                    if k == 0 {
                        assert!(p.templates.len() == 0 && p.options_templates.len() == 0);
                    }
                }
            }
            core::mem::forget(r);
            core::mem::forget(p);
        }
    };
}
p_v9_packet!(p_v9_unknown_then_template, 2, [3, 5, 0], 0);
p_v9_packet!(p_v9_two_sets_tail, 2, [1, 2, 0], 5);
p_v9_packet!(p_v9_count_gt_sets, 3, [1, 0, 0], 0);
p_v9_packet!(p_v9_count_gt_sets_stray, 3, [2, 0, 0], 2);
p_v9_packet!(p_v9_unknown_second, 2, [1, 3, 0], 0);
p_v9_packet!(p_v9_truncated_second, 2, [2, 4, 0], 0);
p_v9_packet!(p_v9_count0_tail, 0, [0, 0, 0], 6);

/// IPFIX domain: set id 2 with length 12 holding one plain specifier with non-zero length
/// (=> template cached); set id > 255 unknown to the (otherwise empty) caches => Err.
pub fn ipfix_flowset_model<'a>(i: &'a [u8], parser: &mut ipfix::IPFixParser) -> nom::IResult<&'a [u8], ipfix::FlowSet>
where
    'a: 'a,
{
    if i.len() < 4 {
        return Err(nom::Err::Error(nom::error::Error::new(i, nom::error::ErrorKind::Eof)));
    }
    let id = be16(i, 0);
    let len = be16(i, 2);
    let body = if len < 4 { 0 } else { (len - 4) as usize };
    if i.len() < 4 + body {
        return Err(nom::Err::Error(nom::error::Error::new(i, nom::error::ErrorKind::Eof)));
    }
    kani::assume(id == 2 || id > 255);
    if id > 255 {
        kani::assume(!parser.templates.contains_key(&id));
        assert!(parser.options_templates.len() == 0);
        return verify_err(i);
    }
    kani::assume(len == 12);
    let tid = be16(i, 4);
    let fc = be16(i, 6);
    let ft = be16(i, 8);
    let fl = be16(i, 10);
    kani::assume(fc == 1 && ft < 32768 && fl > 0);
    let t = ipfix::Template {
        template_id: tid,
        field_count: 1,
        fields: vec![ipfix::TemplateField { field_type_number: ft, field_type: IPFixField::from(ft), field_length: fl, enterprise_number: None }],
        padding: Vec::new(),
    };
    parser.templates.insert(tid, t.clone());
    Ok((&i[12..], ipfix::FlowSet { header: ipfix::FlowSetHeader { header_id: 2, length: 12 }, body: ipfix::FlowSetBody::Template(t) }))
}

/// P (IPFIX), one harness per shape: message length and set sequence written (kind 1 =
/// template set of 12 bytes, kind 2 = data set for the undefined id 300 of 8 bytes), `$tail`
/// bytes follow the message, `$extra` is added to the announced length (truncation);
/// header words, template ids and field specifiers symbolic.
macro_rules! p_ipfix {
    ($name:ident, $kinds:expr, $tail:expr, $extra:expr, $expect_all:expr) => {
        #[kani::proof]
        #[kani::stub(core::fmt::write, no_fmt)]
        #[kani::stub(netflow_parser::variable_versions::ipfix::FlowSet::parse, ipfix_flowset_model)]
        fn $name() {
            const KINDS: [u8; 3] = $kinds;
            const TAIL: usize = $tail;
            const EXTRA: usize = $extra;
            const fn klen(k: u8) -> usize {
                match k {
                    1 => 12,
                    2 => 8,
                    _ => 0,
                }
            }
            const BODY: usize = klen(KINDS[0]) + klen(KINDS[1]) + klen(KINDS[2]);
            const N: usize = 14 + BODY + TAIL;
            let mut buf: [u8; N] = kani::any();
            let length = (16 + BODY + EXTRA) as u16;
            put16(&mut buf, 0, length);
            let mut pos = 14;
            let mut ntmpl = 0usize;
            let mut tmpl_off = [0usize; 3];
            let mut tmpl_before_skip = 0usize;
            let mut skipped = false;
            let mut i = 0;
            while i < 3 {
                match KINDS[i] {
                    1 => {
                        put16(&mut buf, pos, 2);
                        put16(&mut buf, pos + 2, 12);
                        put16(&mut buf, pos + 6, 1);
                        buf[pos + 8] &= 0x7f;
                        tmpl_off[ntmpl] = pos;
                        ntmpl += 1;
                        if !skipped {
                            tmpl_before_skip += 1;
                        }
                    }
                    2 => {
                        put16(&mut buf, pos, 300);
                        put16(&mut buf, pos + 2, 8);
                        skipped = true;
                    }
                    _ => {}
                }
                pos += klen(KINDS[i]);
                i += 1;
            }
            // every template set must carry a non-zero field length (else the set is refused)
            let mut j = 0;
            while j < 3 {
                if j < ntmpl {
                    kani::assume(be16(&buf, tmpl_off[j] + 10) > 0);
                }
                j += 1;
            }
            let mut p = ipfix::IPFixParser::default();
            let r = ipfix::IPFix::parse(&buf, &mut p);
            match &r {
                Ok((rem, m)) => {
                    assert!(EXTRA <= TAIL);
                    assert!(rem.len() == TAIL.wrapping_sub(EXTRA));
                    assert!(m.header.version == 10 && m.header.length == length);
                    assert!(m.header.export_time == be32(&buf, 2));
                    assert!(m.header.sequence_number == be32(&buf, 6));
                    assert!(m.header.observation_domain_id == be32(&buf, 10));
                    // C05: every decodable set inside the message is reported, in order
                    // (C07: the undecodable one is omitted).  $expect_all = false is the
                    // witness of C05-sets-after-undecodable-dropped.
                    let want = if $expect_all { ntmpl } else { tmpl_before_skip };
                    if EXTRA == 0 {
                        assert!(m.flowsets.len() == ntmpl);
                    }
                    let mut j = 0;
                    while j < 3 {
                        if j < want && j < m.flowsets.len() {
                            match &m.flowsets[j].body {
                                ipfix::FlowSetBody::Template(t) => assert!(t.template_id == be16(&buf, tmpl_off[j] + 4)),
                                _ => assert!(false),
                            }
                        }
                        j += 1;
                    }
                }
                Err(_) => {
                    // C14: a message length beyond the buffer is an error and nothing is learned
                    assert!(EXTRA > TAIL);
                    assert!(p.templates.len() == 0);
                }
            }
            core::mem::forget(r);
            core::mem::forget(p);
        }
    };
}
p_ipfix!(p_ipfix_two_templates_tail, [1, 1, 0], 3, 0, true);
p_ipfix!(p_ipfix_template_then_unknown, [1, 2, 0], 0, 0, true);
p_ipfix!(p_ipfix_truncated_after_template, [1, 2, 0], 0, 2, true);
p_ipfix!(p_ipfix_header_only_tail, [0, 0, 0], 4, 0, true);
// Known-finding witness C05-sets-after-undecodable-dropped
p_ipfix!(p_ipfix_sets_after_skipped_kf, [2, 1, 0], 0, 0, true);
