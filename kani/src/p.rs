//! P layer: `V9::parse` (header, count-bounded flowset loop, early stop on empty input,
//! error propagation) and `IPFix::parse` (header, length-16 window, greedy set loop),
//! with `FlowSet::parse` replaced by models that are exact on the harness domain and that
//! `assume` that domain.
use crate::common::*;
use netflow_parser::variable_versions::{ipfix, v9};
use netflow_parser::variable_versions::ipfix_lookup::IPFixField;

fn verify_err<'a, T>(i: &'a [u8]) -> nom::IResult<&'a [u8], T> {
    Err(nom::Err::Error(nom::error::Error::new(i, nom::error::ErrorKind::Verify)))
}

fn tail(i: &[u8], from: usize, n: usize) -> Vec<u8> {
    let mut v = Vec::with_capacity(4);
    let mut k = 0;
    while k < 3 {
        if k < n {
            v.push(i[from + k]);
        }
        k += 1;
    }
    v
}

/// V9 domain: empty caches; flowset id 0 or 1 with length <= 7 (body < 4 bytes: no
/// (options) template record fits, body is padding); any other id is unknown => Err.
pub fn v9_flowset_model<'a>(i: &'a [u8], parser: &mut v9::V9Parser) -> nom::IResult<&'a [u8], v9::FlowSet>
where
    'a: 'a,
{
    assert!(parser.templates.len() == 0 && parser.options_templates.len() == 0);
    if i.len() < 4 {
        return Err(nom::Err::Error(nom::error::Error::new(i, nom::error::ErrorKind::Eof)));
    }
    let id = be16(i, 0);
    let len = be16(i, 2);
    let body = if len < 4 { 0 } else { (len - 4) as usize };
    if i.len() < 4 + body {
        return Err(nom::Err::Error(nom::error::Error::new(i, nom::error::ErrorKind::Eof)));
    }
    if id > 1 {
        return verify_err(i);
    }
    kani::assume(body < 4);
    let header = v9::FlowSetHeader { flowset_id: id, length: len };
    let padding = tail(i, 4, body);
    let b = if id == 0 {
        v9::FlowSetBody::Template(v9::Templates { templates: Vec::new(), padding })
    } else {
        v9::FlowSetBody::OptionsTemplate(v9::OptionsTemplates { templates: Vec::new(), padding })
    };
    Ok((&i[4 + body..], v9::FlowSet { header, body: b }))
}

/// P (V9): header fields as sent; flowsets = the first `count` flowsets (fewer if the
/// buffer ends first); consumed = 20 + sum(max(length,4)); any failing flowset fails the
/// packet (C07 for V9: unknown id => whole packet is an error).
#[kani::proof]
#[kani::stub(core::fmt::write, no_fmt)]
#[kani::stub(netflow_parser::variable_versions::v9::FlowSet::parse, v9_flowset_model)]
fn p_v9_packet() {
    const N: usize = 18 + 7 + 7 + 4;
    let buf: [u8; N] = kani::any();
    let count = be16(&buf, 0);
    kani::assume(count <= 3);
    let mut p = v9::V9Parser::default();
    // reference walk
    let mut pos = 18usize;
    let mut k = 0usize;
    let mut offs = [0usize; 3];
    let mut fail = false;
    let mut i = 0;
    while i < 3 {
        if i < count as usize && !fail && pos < N {
            if N - pos < 4 {
                fail = true;
            } else {
                let id = be16(&buf, pos);
                let len = be16(&buf, pos + 2);
                let body = if len < 4 { 0 } else { (len - 4) as usize };
                if N - pos < 4 + body || id > 1 {
                    fail = true;
                } else {
                    kani::assume(body < 4);
                    offs[k] = pos;
                    k += 1;
                    pos += 4 + body;
                }
            }
        }
        i += 1;
    }
    let r = v9::V9::parse(&buf, &mut p);
    match &r {
        Ok((rem, pkt)) => {
            assert!(!fail);
            assert!(rem.len() == N - pos);
            assert!(pkt.header.version == 9 && pkt.header.count == count);
            assert!(pkt.header.sys_up_time == be32(&buf, 2));
            assert!(pkt.header.unix_secs == be32(&buf, 6));
            assert!(pkt.header.sequence_number == be32(&buf, 10));
            assert!(pkt.header.source_id == be32(&buf, 14));
            assert!(pkt.flowsets.len() == k);
            let mut j = 0;
            while j < 3 {
                if j < k {
                    let fs = &pkt.flowsets[j];
                    assert!(fs.header.flowset_id == be16(&buf, offs[j]));
                    assert!(fs.header.length == be16(&buf, offs[j] + 2));
                }
                j += 1;
            }
            kani::cover!(k == 3);
            kani::cover!(k == 2 && count == 2 && rem.len() > 0);
            kani::cover!(k == 0 && count == 0);
        }
        Err(_) => {
            assert!(fail);
            kani::cover!(k == 1);
        }
    }
    core::mem::forget(r);
    core::mem::forget(p);
}

/// IPFIX domain: set id 2 with length 12 holding one plain specifier with non-zero length
/// (=> template cached); set id > 255 unknown to the (otherwise empty) caches => Err.
pub fn ipfix_flowset_model<'a>(i: &'a [u8], parser: &mut ipfix::IPFixParser) -> nom::IResult<&'a [u8], ipfix::FlowSet>
where
    'a: 'a,
{
    if i.len() < 4 {
        return Err(nom::Err::Error(nom::error::Error::new(i, nom::error::ErrorKind::Eof)));
    }
    let id = be16(i, 0);
    let len = be16(i, 2);
    let body = if len < 4 { 0 } else { (len - 4) as usize };
    if i.len() < 4 + body {
        return Err(nom::Err::Error(nom::error::Error::new(i, nom::error::ErrorKind::Eof)));
    }
    kani::assume(id == 2 || id > 255);
    if id > 255 {
        kani::assume(!parser.templates.contains_key(&id));
        assert!(parser.options_templates.len() == 0);
        return verify_err(i);
    }
    kani::assume(len == 12);
    let tid = be16(i, 4);
    let fc = be16(i, 6);
    let ft = be16(i, 8);
    let fl = be16(i, 10);
    kani::assume(fc == 1 && ft < 32768 && fl > 0);
    let t = ipfix::Template {
        template_id: tid,
        field_count: 1,
        fields: vec![ipfix::TemplateField { field_type_number: ft, field_type: IPFixField::from(ft), field_length: fl, enterprise_number: None }],
        padding: Vec::new(),
    };
    parser.templates.insert(tid, t.clone());
    Ok((&i[12..], ipfix::FlowSet { header: ipfix::FlowSetHeader { header_id: 2, length: 12 }, body: ipfix::FlowSetBody::Template(t) }))
}

macro_rules! p_ipfix {
    ($name:ident, $remainder:expr) => {
        #[kani::proof]
        #[kani::stub(core::fmt::write, no_fmt)]
        #[kani::stub(netflow_parser::variable_versions::ipfix::FlowSet::parse, ipfix_flowset_model)]
        fn $name() {
            const N: usize = 14 + 12 + 12 + 6;
            let buf: [u8; N] = kani::any();
            let length = be16(&buf, 0);
            let mut p = ipfix::IPFixParser::default();
            let win = if length < 16 { 0 } else { (length - 16) as usize };
            // reference walk over the sets inside the message length: every decodable set
            // is reported (C05), an undecodable one (unknown template, C07) is omitted
            let mut pos = 14usize;
            let end = 14 + win;
            let mut k = 0usize;
            let mut offs = [0usize; 3];
            let mut skipped_then_ok = false;
            let mut skipped = false;
            let mut i = 0;
            while i < 3 {
                if end <= N && end - pos >= 4 {
                    let id = be16(&buf, pos);
                    let len = be16(&buf, pos + 2);
                    let body = if len < 4 { 0 } else { (len - 4) as usize };
                    if end - pos >= 4 + body {
                        if id == 2 {
                            if skipped {
                                skipped_then_ok = true;
                            }
                            offs[k] = pos;
                            k += 1;
                        } else {
                            skipped = true;
                        }
                        pos += 4 + body;
                    } else {
                        pos = end;
                    }
                }
                i += 1;
            }
            if $remainder {
                kani::assume(!skipped_then_ok);
            } else {
                kani::assume(skipped_then_ok);
            }
            let r = ipfix::IPFix::parse(&buf, &mut p);
            match &r {
                Ok((rem, m)) => {
                    assert!(end <= N);
                    assert!(rem.len() == N - end);
                    assert!(m.header.version == 10 && m.header.length == length);
                    assert!(m.header.export_time == be32(&buf, 2));
                    assert!(m.header.sequence_number == be32(&buf, 6));
                    assert!(m.header.observation_domain_id == be32(&buf, 10));
                    assert!(m.flowsets.len() == k);
                    let mut j = 0;
                    while j < 3 {
                        if j < k {
                            match &m.flowsets[j].body {
                                ipfix::FlowSetBody::Template(t) => assert!(t.template_id == be16(&buf, offs[j] + 4)),
                                _ => assert!(false),
                            }
                        }
                        j += 1;
                    }
                    kani::cover!(k == 2);
                    kani::cover!(k == 1 && skipped);
                    kani::cover!(k == 0 && length < 16);
                }
                Err(_) => {
                    // C14: a message length beyond the buffer is an error and nothing is learned
                    assert!(end > N);
                    assert!(p.templates.len() == 0);
                    kani::cover!(true);
                }
            }
            core::mem::forget(r);
            core::mem::forget(p);
        }
    };
}
p_ipfix!(p_ipfix_message, true);
// Known-finding witness C05-sets-after-undecodable-dropped
p_ipfix!(p_ipfix_sets_after_skipped_kf, false);
