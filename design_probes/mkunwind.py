import sys,re,subprocess
# usage: mkunwind.py <goto.out> default  -> prints unwindset string
g=sys.argv[1]
out=subprocess.run(['cbmc','--show-loops',g],capture_output=True,text=True).stdout
loops=re.findall(r'^Loop (\S+):\n\s+(.*)$',out,re.M)
rules=[(r'be_u128|be_i128',17),(r'be_u64|be_i64|be_f64',9),(r'be_u32|be_i32|be_f32',5),(r'be_u24|be_i24',4),(r'be_u16|be_i16',3)]
res=[]
for name,desc in loops:
    for pat,b in rules:
        if re.search(pat,desc):
            res.append(f'{name}:{b}'); break
print(','.join(res))
