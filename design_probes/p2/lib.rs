#[cfg(kani)]
mod h {
    use netflow_parser::NetflowPacket;
    use netflow_parser::variable_versions::ipfix::{IPFixParser, IPFix, FlowSetBody, Template as ITemplate, TemplateField as IField};
    use netflow_parser::variable_versions::ipfix_lookup::IPFixField;
    use netflow_parser::variable_versions::v9::{V9Parser, V9, Template as VTemplate, TemplateField as VField, FlowSetBody as VBody};
    use netflow_parser::variable_versions::v9_lookup::V9Field;
    use netflow_parser::variable_versions::data_number::{FieldValue, DataNumber, FieldDataType};

    pub fn no_fmt(_o: &mut dyn core::fmt::Write, _a: core::fmt::Arguments<'_>) -> core::fmt::Result { Ok(()) }

    // verified-stub model of FieldValue::from_field_type: slices `need` bytes, returns them raw
    pub fn fft_model<'a>(remaining: &'a [u8], ty: FieldDataType, len: u16) -> nom::IResult<&'a [u8], FieldValue> {
        let need: usize = match ty {
            FieldDataType::UnsignedDataNumber | FieldDataType::SignedDataNumber | FieldDataType::DurationSeconds
            | FieldDataType::DurationMillis | FieldDataType::DurationMicros | FieldDataType::DurationNanos => {
                if len == 1 || len == 2 || len == 3 || len == 4 || len == 8 || len == 16 { len as usize }
                else { return Err(nom::Err::Error(nom::error::Error::new(remaining, nom::error::ErrorKind::Fail))); }
            }
            FieldDataType::String | FieldDataType::Vec | FieldDataType::Unknown => len as usize,
            FieldDataType::Ip4Addr => 4, FieldDataType::Ip6Addr => 16, FieldDataType::MacAddr => 6,
            FieldDataType::ProtocolType => 1, FieldDataType::Float64 => 8,
        };
        if remaining.len() < need { return Err(nom::Err::Error(nom::error::Error::new(remaining, nom::error::ErrorKind::Eof))); }
        Ok((&remaining[need..], FieldValue::DataNumber(DataNumber::U64(((remaining.as_ptr() as usize as u64) << 16) | need as u64))))
    }
    fn put16(b: &mut [u8], off: usize, v: u16) { b[off] = (v >> 8) as u8; b[off + 1] = v as u8; }

    // M1: per-type kernel, symbolic declared length and symbolic available bytes
    #[kani::proof]
    #[kani::unwind(18)]
    fn m1_unsigned_kernel() {
        let buf: [u8; 17] = kani::any();
        let n: usize = kani::any(); kani::assume(n <= 17);
        let len: u16 = kani::any();
        match FieldValue::from_field_type(&buf[..n], FieldDataType::UnsignedDataNumber, len) {
            Ok((rem, v)) => {
                assert!(len == 1 || len == 2 || len == 3 || len == 4 || len == 8 || len == 16);
                assert!(rem.len() == n - len as usize);
                if len == 2 { assert!(v == FieldValue::DataNumber(DataNumber::U16(((buf[0] as u16) << 8) | buf[1] as u16))); }
                std::mem::forget(v);
            }
            Err(e) => { assert!(!(len == 1 || len == 2 || len == 3 || len == 4 || len == 8 || len == 16) || n < len as usize); std::mem::forget(e); }
        }
    }

    // M3: IPFIX data-only message, cache pre-populated with a concrete 2-field template, 2 records
    #[kani::proof]
    #[kani::stub(core::fmt::write, no_fmt)]
    fn m3_ipfix_data_prepop() {
        let mut p = IPFixParser::default();
        p.templates.insert(256, ITemplate { template_id: 256, field_count: 2, fields: vec![
            IField { field_type_number: 1, field_type: IPFixField::OctetDeltaCount, field_length: 2, enterprise_number: None },
            IField { field_type_number: 7, field_type: IPFixField::SourceTransportPort, field_length: 2, enterprise_number: None },
        ], padding: vec![] });
        let mut buf: [u8; 14 + 4 + 8 + 1] = kani::any();
        put16(&mut buf, 0, 16 + 4 + 9);
        put16(&mut buf, 14, 256); put16(&mut buf, 16, 4 + 9);
        let r = IPFix::parse(&buf, &mut p);
        match &r {
            Ok((rem, m)) => {
                assert!(rem.is_empty());
                assert!(m.flowsets.len() == 1);
                if let FlowSetBody::Data(d) = &m.flowsets[0].body {
                    assert!(d.fields.len() == 4);
                    assert!(d.padding.len() == 1);
                    let v = &d.fields[3].get(&1).unwrap().1;
                    let want = ((buf[24] as u16) << 8) | buf[25] as u16;
                    assert!(*v == FieldValue::DataNumber(DataNumber::U16(want)));
                } else { assert!(false); }
            }
            Err(_) => assert!(false),
        }
        std::mem::forget(r);
        std::mem::forget(p);
    }

    // M4: V9 data-only packet, cache pre-populated (shim map), 2 records of (u32, ip4) + 2 pad
    #[kani::proof]
    #[kani::stub(core::fmt::write, no_fmt)]
    #[kani::stub(netflow_parser::variable_versions::data_number::FieldValue::from_field_type, fft_model)]
    fn m4_v9_data_prepop() {
        let mut p = V9Parser::default();
        p.templates.insert(256, VTemplate { template_id: 256, field_count: 2, fields: vec![
            VField { field_type_number: 1, field_type: V9Field::InBytes, field_length: 4 },
            VField { field_type_number: 8, field_type: V9Field::Ipv4SrcAddr, field_length: 4 },
        ]});
        let mut buf: [u8; 18 + 4 + 16 + 2] = kani::any();
        put16(&mut buf, 0, 1);
        put16(&mut buf, 18, 256); put16(&mut buf, 20, 4 + 18);
        let r = V9::parse(&buf, &mut p);
        match &r {
            Ok((rem, m)) => {
                assert!(rem.is_empty());
                assert!(m.flowsets.len() == 1);
                if let VBody::Data(d) = &m.flowsets[0].body {
                    assert!(d.fields.len() == 2);
                    assert!(d.padding.len() == 2);
                    let v = &d.fields[1].get(&0).unwrap().1;
                    assert!(*v == FieldValue::Vec(vec![buf[30], buf[31], buf[32], buf[33]]));
                } else { assert!(false); }
            }
            Err(_) => assert!(false),
        }
        std::mem::forget(r);
        std::mem::forget(p);
    }

    // M5: V9 template flowset only, symbolic content, concrete lengths (1 template, 2 fields)
    #[kani::proof]
    #[kani::unwind(5)]
    fn m5_v9_template_only() {
        let mut p = V9Parser::default();
        let mut buf: [u8; 18 + 4 + 4 + 8] = kani::any();
        put16(&mut buf, 0, 1);
        put16(&mut buf, 18, 0); put16(&mut buf, 20, 16);
        put16(&mut buf, 24, 2);
        let r = V9::parse(&buf, &mut p);
        match &r {
            Ok((rem, m)) => {
                assert!(rem.is_empty());
                assert!(m.flowsets.len() == 1);
                if let VBody::Template(t) = &m.flowsets[0].body {
                    assert!(t.templates.len() == 1);
                    assert!(t.templates[0].fields.len() == 2);
                    assert!(t.templates[0].fields[1].field_length == ((buf[32] as u16) << 8) | buf[33] as u16);
                    let id = ((buf[22] as u16) << 8) | buf[23] as u16;
                    assert!(p.templates.get(&id).is_some());
                } else { assert!(false); }
            }
            Err(_) => assert!(false),
        }
        std::mem::forget(r);
        std::mem::forget(p);
    }

    // L1: v9::Data::parse only (record loop), kernel stubbed by verified model; template lengths symbolic
    #[kani::proof]
    #[kani::stub(core::fmt::write, no_fmt)]
    #[kani::stub(netflow_parser::variable_versions::data_number::FieldValue::from_field_type, fft_model)]
    fn l1_v9_data() {
        let l0: u16 = kani::any(); let l1: u16 = kani::any();
        kani::assume(l0 <= 3 && l1 <= 3);
        let mut p = V9Parser::default();
        p.templates.insert(256, VTemplate { template_id: 256, field_count: 2, fields: vec![
            VField { field_type_number: 95, field_type: V9Field::ApplicationTag, field_length: l0 },
            VField { field_type_number: 90, field_type: V9Field::MplsPalRd, field_length: l1 },
        ]});
        let buf: [u8; 10] = kani::any();
        let n: usize = kani::any(); kani::assume(n <= 10);
        kani::assume(l0 + l1 > 0);
        kani::assume(n < 3 * (l0 + l1) as usize);
        let r = netflow_parser::variable_versions::v9::Data::parse(&buf[..n], &mut p, 256);
        match &r {
            Ok((rem, d)) => {
                let size = (l0 + l1) as usize;
                assert!(rem.is_empty());
                assert!(d.fields.len() == n / size);
                assert!(d.padding.len() == n % size);
                if d.fields.len() == 2 {
                    let base = buf.as_ptr() as usize as u64;
                    let v = &d.fields[1].get(&1).unwrap().1;
                    assert!(*v == FieldValue::DataNumber(DataNumber::U64(((base + size as u64 + l0 as u64) << 16) | l1 as u64)));
                }
            }
            Err(_) => assert!(false),
        }
        std::mem::forget(r);
        std::mem::forget(p);
    }
}
