//! Serializer harnesses on *structures* (C09, C10): `V9::to_be_bytes` / `IPFix::to_be_bytes`
//! applied to result structures of the shape the S layer shows the decoders produce, with every
//! value symbolic, compared with the RFC 3954 / RFC 7011 wire layout written out by hand.
//! Together with the S layer ("decoded structure == what was sent, padding included") this is
//! the re-export identity for template, options-template and (unsigned) data flowsets, without
//! running decoder and serializer in one CBMC run (which does not finish, see DESIGN).
use crate::common::*;
use crate::km::{fv_to_be_bytes_unreachable, fv_to_be_bytes_unsigned_model};
use netflow_parser::variable_versions::data_number::{DataNumber, FieldValue};
use netflow_parser::variable_versions::ipfix_lookup::IPFixField;
use netflow_parser::variable_versions::v9_lookup::{ScopeFieldType, V9Field};
use netflow_parser::variable_versions::{ipfix, v9};

fn v9_header() -> v9::Header {
    v9::Header { version: 9, count: kani::any(), sys_up_time: kani::any(), unix_secs: kani::any(), sequence_number: kani::any(), source_id: kani::any() }
}
fn v9_tf() -> v9::TemplateField {
    let n: u16 = kani::any();
    v9::TemplateField { field_type_number: n, field_type: V9Field::from(n), field_length: kani::any() }
}
fn check_v9_header(out: &[u8], h: &v9::Header) {
    assert!(out[0] == 0 && out[1] == 9);
    assert!(be16(out, 2) == h.count && be32(out, 4) == h.sys_up_time && be32(out, 8) == h.unix_secs);
    assert!(be32(out, 12) == h.sequence_number && be32(out, 16) == h.source_id);
}

/// V9 packet with two flowsets: a template flowset (two templates: 2 fields and 1 field, 2
/// padding bytes) followed by an options-template flowset (1 scope + 1 option field, 1 padding
/// byte).  Every number symbolic.
#[kani::proof]
#[kani::stub(core::fmt::write, no_fmt)]
#[kani::stub(netflow_parser::variable_versions::data_number::FieldValue::to_be_bytes, fv_to_be_bytes_unreachable)]
fn ser2_v9_templates() {
    let h = v9_header();
    let (t0, t1): (u16, u16) = (kani::any(), kani::any());
    let (f0, f1, f2) = (v9_tf(), v9_tf(), v9_tf());
    let (f0c, f1c, f2c) = (f0.clone(), f1.clone(), f2.clone());
    let pad: [u8; 2] = kani::any();
    let l0: u16 = kani::any();
    let fs0 = v9::FlowSet {
        header: v9::FlowSetHeader { flowset_id: 0, length: l0 },
        body: v9::FlowSetBody::Template(v9::Templates {
            templates: vec![
                v9::Template { template_id: t0, field_count: 2, fields: vec![f0, f1] },
                v9::Template { template_id: t1, field_count: 1, fields: vec![f2] },
            ],
            padding: vec![pad[0], pad[1]],
        }),
    };
    let (oid, osn, osl): (u16, u16, u16) = (kani::any(), kani::any(), kani::any());
    let of = v9_tf();
    let ofc = of.clone();
    let opad: u8 = kani::any();
    let l1: u16 = kani::any();
    let fs1 = v9::FlowSet {
        header: v9::FlowSetHeader { flowset_id: 1, length: l1 },
        body: v9::FlowSetBody::OptionsTemplate(v9::OptionsTemplates {
            templates: vec![v9::OptionsTemplate {
                template_id: oid,
                options_scope_length: 4,
                options_length: 4,
                scope_fields: vec![v9::OptionsTemplateScopeField { field_type_number: osn, field_type: ScopeFieldType::from(osn), field_length: osl }],
                option_fields: vec![of],
            }],
            padding: vec![opad],
        }),
    };
    let pkt = v9::V9 { header: h, flowsets: vec![fs0, fs1] };
    match pkt.to_be_bytes() {
        Ok(out) => {
            const S0: usize = 4 + 12 + 8 + 2;
            const S1: usize = 4 + 6 + 8 + 1;
            assert!(out.len() == 20 + S0 + S1);
            check_v9_header(&out, &h);
            let o = 20;
            assert!(be16(&out, o) == 0 && be16(&out, o + 2) == l0);
            assert!(be16(&out, o + 4) == t0 && be16(&out, o + 6) == 2);
            assert!(be16(&out, o + 8) == f0c.field_type_number && be16(&out, o + 10) == f0c.field_length);
            assert!(be16(&out, o + 12) == f1c.field_type_number && be16(&out, o + 14) == f1c.field_length);
            assert!(be16(&out, o + 16) == t1 && be16(&out, o + 18) == 1);
            assert!(be16(&out, o + 20) == f2c.field_type_number && be16(&out, o + 22) == f2c.field_length);
            assert!(out[o + 24] == pad[0] && out[o + 25] == pad[1]);
            let o = 20 + S0;
            assert!(be16(&out, o) == 1 && be16(&out, o + 2) == l1);
            assert!(be16(&out, o + 4) == oid && be16(&out, o + 6) == 4 && be16(&out, o + 8) == 4);
            assert!(be16(&out, o + 10) == osn && be16(&out, o + 12) == osl);
            assert!(be16(&out, o + 14) == ofc.field_type_number && be16(&out, o + 16) == ofc.field_length);
            assert!(out[o + 18] == opad);
            core::mem::forget(out);
        }
        Err(_) => assert!(false),
    }
    core::mem::forget(pkt);
}

/// V9 packet with a data flowset (2 records x {U32, U16}, 1 padding byte) and an options-data
/// flowset (scope System 2 bytes, option field 2 bytes, 2 padding bytes).
#[kani::proof]
#[kani::stub(core::fmt::write, no_fmt)]
#[kani::stub(netflow_parser::variable_versions::data_number::FieldValue::to_be_bytes, fv_to_be_bytes_unsigned_model)]
fn ser2_v9_data() {
    let h = v9_header();
    let a: [u32; 2] = kani::any();
    let b: [u16; 2] = kani::any();
    let pad: u8 = kani::any();
    let (id, l0): (u16, u16) = (kani::any(), kani::any());
    let mut recs = Vec::new();
    let mut k = 0;
    while k < 2 {
        let mut m = netflow_parser::verif_shim::VMap::new();
        m.insert(0usize, (V9Field::InBytes, FieldValue::DataNumber(DataNumber::U32(a[k]))));
        m.insert(1usize, (V9Field::InPkts, FieldValue::DataNumber(DataNumber::U16(b[k]))));
        recs.push(m);
        k += 1;
    }
    let fs0 = v9::FlowSet { header: v9::FlowSetHeader { flowset_id: id, length: l0 }, body: v9::FlowSetBody::Data(v9::Data { fields: recs, padding: vec![pad] }) };
    let sc: [u8; 2] = kani::any();
    let ov: [u8; 2] = kani::any();
    let op: [u8; 2] = kani::any();
    let (oid, l1): (u16, u16) = (kani::any(), kani::any());
    let fs1 = v9::FlowSet {
        header: v9::FlowSetHeader { flowset_id: oid, length: l1 },
        body: v9::FlowSetBody::OptionsData(v9::OptionsData {
            scope_fields: vec![v9::ScopeDataField::System(vec![sc[0], sc[1]])],
            options_fields: vec![v9::OptionDataField { field_type: V9Field::InBytes, field_value: vec![ov[0], ov[1]] }],
            padding: vec![op[0], op[1]],
        }),
    };
    let pkt = v9::V9 { header: h, flowsets: vec![fs0, fs1] };
    match pkt.to_be_bytes() {
        Ok(out) => {
            const S0: usize = 4 + 12 + 1;
            const S1: usize = 4 + 2 + 2 + 2;
            assert!(out.len() == 20 + S0 + S1);
            check_v9_header(&out, &h);
            let o = 20;
            assert!(be16(&out, o) == id && be16(&out, o + 2) == l0);
            assert!(be32(&out, o + 4) == a[0] && be16(&out, o + 8) == b[0]);
            assert!(be32(&out, o + 10) == a[1] && be16(&out, o + 14) == b[1]);
            assert!(out[o + 16] == pad);
            let o = 20 + S0;
            assert!(be16(&out, o) == oid && be16(&out, o + 2) == l1);
            assert!(out[o + 4] == sc[0] && out[o + 5] == sc[1]);
            assert!(out[o + 6] == ov[0] && out[o + 7] == ov[1]);
            assert!(out[o + 8] == op[0] && out[o + 9] == op[1]);
            core::mem::forget(out);
        }
        Err(_) => assert!(false),
    }
    core::mem::forget(pkt);
}

fn ipfix_header() -> ipfix::Header {
    ipfix::Header { version: 10, length: kani::any(), export_time: kani::any(), sequence_number: kani::any(), observation_domain_id: kani::any() }
}
fn ipfix_tf() -> ipfix::TemplateField {
    let n: u16 = kani::any();
    kani::assume(n < 32768);
    ipfix::TemplateField { field_type_number: n, field_type: IPFixField::from(n), field_length: kani::any(), enterprise_number: None }
}
fn check_ipfix_header(out: &[u8], h: &ipfix::Header) {
    assert!(out[0] == 0 && out[1] == 10);
    assert!(be16(out, 2) == h.length && be32(out, 4) == h.export_time);
    assert!(be32(out, 8) == h.sequence_number && be32(out, 12) == h.observation_domain_id);
}

/// IPFIX message: template set (1 record, 2 plain specifiers, 3 padding bytes) + options
/// template set (1 record, 1 plain specifier, scope count symbolic, 2 padding bytes).
#[kani::proof]
#[kani::stub(core::fmt::write, no_fmt)]
#[kani::stub(netflow_parser::variable_versions::data_number::FieldValue::to_be_bytes, fv_to_be_bytes_unreachable)]
fn ser2_ipfix_templates() {
    let h = ipfix_header();
    let (tid, fc, l0): (u16, u16, u16) = (kani::any(), kani::any(), kani::any());
    let (f0, f1) = (ipfix_tf(), ipfix_tf());
    let (f0c, f1c) = (f0.clone(), f1.clone());
    let pad: [u8; 3] = kani::any();
    let fs0 = ipfix::FlowSet {
        header: ipfix::FlowSetHeader { header_id: 2, length: l0 },
        body: ipfix::FlowSetBody::Template(ipfix::Template { template_id: tid, field_count: fc, fields: vec![f0, f1], padding: vec![pad[0], pad[1], pad[2]] }),
    };
    let (oid, ofc, osc, l1): (u16, u16, u16, u16) = (kani::any(), kani::any(), kani::any(), kani::any());
    let of = ipfix_tf();
    let ofcopy = of.clone();
    let opad: [u8; 2] = kani::any();
    let fs1 = ipfix::FlowSet {
        header: ipfix::FlowSetHeader { header_id: 3, length: l1 },
        body: ipfix::FlowSetBody::OptionsTemplate(ipfix::OptionsTemplate { template_id: oid, field_count: ofc, scope_field_count: osc, fields: vec![of], padding: vec![opad[0], opad[1]] }),
    };
    let m = ipfix::IPFix { header: h, flowsets: vec![fs0, fs1] };
    match m.to_be_bytes() {
        Ok(out) => {
            const S0: usize = 4 + 4 + 8 + 3;
            const S1: usize = 4 + 6 + 4 + 2;
            assert!(out.len() == 16 + S0 + S1);
            check_ipfix_header(&out, &h);
            let o = 16;
            assert!(be16(&out, o) == 2 && be16(&out, o + 2) == l0);
            assert!(be16(&out, o + 4) == tid && be16(&out, o + 6) == fc);
            assert!(be16(&out, o + 8) == f0c.field_type_number && be16(&out, o + 10) == f0c.field_length);
            assert!(be16(&out, o + 12) == f1c.field_type_number && be16(&out, o + 14) == f1c.field_length);
            assert!(out[o + 16] == pad[0] && out[o + 17] == pad[1] && out[o + 18] == pad[2]);
            let o = 16 + S0;
            assert!(be16(&out, o) == 3 && be16(&out, o + 2) == l1);
            assert!(be16(&out, o + 4) == oid && be16(&out, o + 6) == ofc && be16(&out, o + 8) == osc);
            assert!(be16(&out, o + 10) == ofcopy.field_type_number && be16(&out, o + 12) == ofcopy.field_length);
            assert!(out[o + 14] == opad[0] && out[o + 15] == opad[1]);
            core::mem::forget(out);
        }
        Err(_) => assert!(false),
    }
    core::mem::forget(m);
}

/// IPFIX message: data set in the decoder's shape (one single-entry map per field; 2 records x
/// {U16, U32}) with 2 padding bytes, and an options-data set (1 record x {U8}) with 3.
#[kani::proof]
#[kani::stub(core::fmt::write, no_fmt)]
#[kani::stub(netflow_parser::variable_versions::data_number::FieldValue::to_be_bytes, fv_to_be_bytes_unsigned_model)]
fn ser2_ipfix_data() {
    let h = ipfix_header();
    let a: [u16; 2] = kani::any();
    let b: [u32; 2] = kani::any();
    let pad: [u8; 2] = kani::any();
    let (id, l0): (u16, u16) = (kani::any(), kani::any());
    let mut fields = Vec::new();
    let mut k = 0;
    while k < 2 {
        let mut m0 = netflow_parser::verif_shim::VMap::new();
        m0.insert(0usize, (IPFixField::SourceTransportPort, FieldValue::DataNumber(DataNumber::U16(a[k]))));
        fields.push(m0);
        let mut m1 = netflow_parser::verif_shim::VMap::new();
        m1.insert(1usize, (IPFixField::OctetDeltaCount, FieldValue::DataNumber(DataNumber::U32(b[k]))));
        fields.push(m1);
        k += 1;
    }
    let fs0 = ipfix::FlowSet { header: ipfix::FlowSetHeader { header_id: id, length: l0 }, body: ipfix::FlowSetBody::Data(ipfix::Data { fields, padding: vec![pad[0], pad[1]] }) };
    let c: u8 = kani::any();
    let opad: [u8; 3] = kani::any();
    let (oid, l1): (u16, u16) = (kani::any(), kani::any());
    let mut of = Vec::new();
    let mut m = netflow_parser::verif_shim::VMap::new();
    m.insert(0usize, (IPFixField::ProtocolIdentifier, FieldValue::DataNumber(DataNumber::U8(c))));
    of.push(m);
    let fs1 = ipfix::FlowSet { header: ipfix::FlowSetHeader { header_id: oid, length: l1 }, body: ipfix::FlowSetBody::OptionsData(ipfix::OptionsData { fields: of, padding: vec![opad[0], opad[1], opad[2]] }) };
    let msg = ipfix::IPFix { header: h, flowsets: vec![fs0, fs1] };
    match msg.to_be_bytes() {
        Ok(out) => {
            const S0: usize = 4 + 12 + 2;
            const S1: usize = 4 + 1 + 3;
            assert!(out.len() == 16 + S0 + S1);
            check_ipfix_header(&out, &h);
            let o = 16;
            assert!(be16(&out, o) == id && be16(&out, o + 2) == l0);
            assert!(be16(&out, o + 4) == a[0] && be32(&out, o + 6) == b[0]);
            assert!(be16(&out, o + 10) == a[1] && be32(&out, o + 12) == b[1]);
            assert!(out[o + 16] == pad[0] && out[o + 17] == pad[1]);
            let o = 16 + S0;
            assert!(be16(&out, o) == oid && be16(&out, o + 2) == l1);
            assert!(out[o + 4] == c);
            assert!(out[o + 5] == opad[0] && out[o + 6] == opad[1] && out[o + 7] == opad[2]);
            core::mem::forget(out);
        }
        Err(_) => assert!(false),
    }
    core::mem::forget(msg);
}
