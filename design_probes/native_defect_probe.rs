use netflow_parser::{NetflowParser, NetflowPacket};
use netflow_parser::protocol::ProtocolTypes;
fn be16(v: u16) -> [u8; 2] { v.to_be_bytes() }
fn v9_hdr(count: u16) -> Vec<u8> { let mut b = vec![0, 9]; b.extend(be16(count)); b.extend([0u8; 16]); b }
fn ipfix_hdr(len: u16) -> Vec<u8> { let mut b = vec![0, 10]; b.extend(be16(len)); b.extend([0u8; 12]); b }
fn main() {
    let which = std::env::args().nth(1).unwrap_or_default();
    match which.as_str() {
        "div0" => {
            // V9: template 256 with one zero-length field, then data flowset
            let mut b = v9_hdr(2);
            b.extend(be16(0)); b.extend(be16(12)); b.extend(be16(256)); b.extend(be16(1)); b.extend(be16(1)); b.extend(be16(0));
            b.extend(be16(256)); b.extend(be16(8)); b.extend([1, 2, 3, 4]);
            println!("len {}", b.len());
            let r = NetflowParser::default().parse_bytes(&b);
            println!("{:?}", r.len());
        }
        "stack" => {
            let n: usize = std::env::args().nth(2).unwrap().parse().unwrap();
            let mut b = ipfix_hdr((16 + 12 + 4 + n) as u16);
            b.extend(be16(2)); b.extend(be16(12)); b.extend(be16(256)); b.extend(be16(1)); b.extend(be16(4)); b.extend(be16(1));
            b.extend(be16(256)); b.extend(be16((4 + n) as u16)); b.extend(vec![7u8; n]);
            let h = std::thread::Builder::new().stack_size(2 * 1024 * 1024).spawn(move || {
                let r = NetflowParser::default().parse_bytes(&b); if let NetflowPacket::IPFix(m) = &r[0] { println!("sets {}", m.flowsets.len()); if m.flowsets.len() > 1 { if let netflow_parser::variable_versions::ipfix::FlowSetBody::Data(d) = &m.flowsets[1].body { println!("records {}", d.fields.len()); } } } r.len()
            }).unwrap();
            println!("{:?}", h.join());
        }
        "chain" => {
            // recursion per packet: N minimal ipfix messages (16 bytes each)
            let n: usize = std::env::args().nth(2).unwrap().parse().unwrap();
            let mut b = vec![]; for _ in 0..n { b.extend(ipfix_hdr(16)); }
            let h = std::thread::Builder::new().stack_size(2 * 1024 * 1024).spawn(move || {
                let r = NetflowParser::default().parse_bytes(&b); r.len()
            }).unwrap();
            println!("{:?}", h.join());
        }
        "v9pad" => {
            let mut b = v9_hdr(2);
            b.extend(be16(0)); b.extend(be16(12)); b.extend(be16(256)); b.extend(be16(1)); b.extend(be16(1)); b.extend(be16(2));
            b.extend(be16(256)); b.extend(be16(8)); b.extend([1, 2, 3, 0]);
            let r = NetflowParser::default().parse_bytes(&b);
            if let NetflowPacket::V9(v) = &r[0] { let o = v.to_be_bytes().unwrap(); println!("in {} out {} eq {}", b.len(), o.len(), o == b); println!("{:?}", v.flowsets[1]); }
        }
        "proto" => { for n in [0u8, 1, 2, 6, 17, 143, 144, 145, 253, 255] { println!("{} -> {:?} -> {}", n, ProtocolTypes::from(n), u8::from(ProtocolTypes::from(n))); } }
        "ipfix2t" => {
            let mut b = ipfix_hdr(16 + 4 + 8 + 8);
            b.extend(be16(2)); b.extend(be16(20));
            b.extend(be16(256)); b.extend(be16(1)); b.extend(be16(1)); b.extend(be16(4));
            b.extend(be16(257)); b.extend(be16(1)); b.extend(be16(2)); b.extend(be16(4));
            let mut p = NetflowParser::default();
            let r = p.parse_bytes(&b);
            println!("{}", serde_json::to_string(&r).unwrap());
            println!("cache ids {:?}", p.ipfix_parser.templates.keys().collect::<Vec<_>>());
        }
        "common" => {
            // V9 template: proto(4,1) srcport(7,2) first(22,4); one record
            let mut b = v9_hdr(2);
            b.extend(be16(0)); b.extend(be16(20)); b.extend(be16(256)); b.extend(be16(3));
            b.extend(be16(4)); b.extend(be16(1)); b.extend(be16(7)); b.extend(be16(2)); b.extend(be16(22)); b.extend(be16(4));
            b.extend(be16(256)); b.extend(be16(12)); b.extend([6, 0, 80, 0, 0, 0, 9, 0]);
            let r = NetflowParser::default().parse_bytes(&b);
            println!("{:?}", r[0].as_netflow_common().unwrap().flowsets);
            let o = if let NetflowPacket::V9(v) = &r[0] { v.to_be_bytes().unwrap() } else { vec![] };
            println!("reexport eq {} ({} vs {})", o == b, o.len(), b.len());
            // IPFIX same
            let mut b = ipfix_hdr(16 + 20 + 11);
            b.extend(be16(2)); b.extend(be16(20)); b.extend(be16(256)); b.extend(be16(3));
            b.extend(be16(4)); b.extend(be16(1)); b.extend(be16(7)); b.extend(be16(2)); b.extend(be16(8)); b.extend(be16(4));
            b.extend(be16(256)); b.extend(be16(11)); b.extend([6, 0, 80, 1, 2, 3, 4]);
            let r = NetflowParser::default().parse_bytes(&b);
            println!("{:?}", r[0].as_netflow_common().unwrap().flowsets.len());
            println!("{}", serde_json::to_string(&r).unwrap());
        }
        _ => {}
    }
}
