#[cfg(kani)]
mod h {
    use netflow_parser::{NetflowPacket, NetflowParser, ParsedNetflow, NetflowParseError, PartialParse};
    use netflow_parser::static_versions::v5::{V5, Header as V5Header, V5Parser};
    use netflow_parser::variable_versions::v9::{V9Parser, V9, Template as VTemplate, TemplateField as VField};
    use netflow_parser::variable_versions::v9_lookup::V9Field;
    use nom_derive::Parse;

    pub fn no_fmt(_o: &mut dyn core::fmt::Write, _a: core::fmt::Arguments<'_>) -> core::fmt::Result { Ok(()) }

    // model of a self-delimiting version parser: first byte after the version = number of extra bytes consumed
    pub fn v5_model(packet: &[u8]) -> Result<ParsedNetflow, NetflowParseError> {
        if packet.is_empty() || packet.len() < 1 + packet[0] as usize {
            return Err(NetflowParseError::Partial(PartialParse { version: 5, remaining: Vec::new(), error: String::new() }));
        }
        let k = packet[0] as usize;
        let hdr = V5Header { version: 5, count: k as u16, sys_up_time: 0, unix_secs: 0, unix_nsecs: 0, flow_sequence: 0, engine_type: 0, engine_id: 0, sampling_interval: 0 };
        Ok(ParsedNetflow { remaining: packet[1 + k..].to_vec(), result: NetflowPacket::V5(V5 { header: hdr, flowsets: Vec::new() }) })
    }


    pub fn v7_model(packet: &[u8]) -> Result<ParsedNetflow, NetflowParseError> { v5_model(packet) }
    pub fn v9_model(_s: &mut V9Parser, packet: &[u8]) -> Result<ParsedNetflow, NetflowParseError> { v5_model(packet) }
    pub fn ipfix_model(_s: &mut netflow_parser::variable_versions::ipfix::IPFixParser, packet: &[u8]) -> Result<ParsedNetflow, NetflowParseError> { v5_model(packet) }
    // P1: dispatch/chaining layer with the V5 entry stubbed by the model; buffer of 8 bytes, versions forced to 5 or 6
    #[kani::proof]
    #[kani::stub(core::fmt::write, no_fmt)]
    #[kani::stub(netflow_parser::static_versions::v5::V5Parser::parse, v5_model)]
    #[kani::stub(netflow_parser::static_versions::v7::V7Parser::parse, v7_model)]
    #[kani::stub(netflow_parser::variable_versions::v9::V9Parser::parse, v9_model)]
    #[kani::stub(netflow_parser::variable_versions::ipfix::IPFixParser::parse, ipfix_model)]
    fn p1_dispatch() {
        let buf: [u8; 9] = kani::any();
        let n: usize = kani::any(); kani::assume(n <= 9);
        let mut p = NetflowParser::default();
        p.allowed_versions = [5u16, 9u16].into();
        let r = p.parse_bytes(&buf[..n]);
        // at most one error and it is last
        let mut i = 0;
        while i < r.len() { if r[i].is_error() { assert!(i + 1 == r.len()); } i += 1; }
        if n == 0 { assert!(r.is_empty()); }
        std::mem::forget(r); std::mem::forget(p);
    }

    // P3: V5 parse -> to_be_bytes roundtrip, count <= 1
    #[kani::proof]
    #[kani::unwind(5)]
    fn p3_v5_roundtrip() {
        let mut buf: [u8; 70] = kani::any();
        buf[0] = 0; kani::assume(buf[1] <= 1);
        if let Ok((rem, v5)) = V5::parse(&buf) {
            let out = v5.to_be_bytes();
            let used = 70 - rem.len();
            assert!(out.len() == used + 2);
            assert!(out[0] == 0 && out[1] == 5);
            let i: usize = kani::any(); kani::assume(i < used);
            assert!(out[i + 2] == buf[i]);
            std::mem::forget(out); std::mem::forget(v5);
        }
    }

    // P2: tiny end-to-end: V9 data-only, 1 record x 1 field (protocol), real kernel, then common view
    #[kani::proof]
    #[kani::stub(core::fmt::write, no_fmt)]
    fn p2_v9_common_tiny() {
        let mut p = V9Parser::default();
        p.templates.insert(256, VTemplate { template_id: 256, field_count: 1, fields: vec![
            VField { field_type_number: 7, field_type: V9Field::L4SrcPort, field_length: 2 },
        ]});
        let mut buf: [u8; 18 + 4 + 2] = kani::any();
        buf[0] = 0; buf[1] = 1; buf[18] = 1; buf[19] = 0; buf[20] = 0; buf[21] = 6;
        if let Ok((_rem, m)) = V9::parse(&buf, &mut p) {
            let pkt = NetflowPacket::V9(m);
            let c = pkt.as_netflow_common().unwrap();
            assert!(c.flowsets.len() == 1);
            assert!(c.flowsets[0].src_port == Some(((buf[22] as u16) << 8) | buf[23] as u16));
            std::mem::forget(c); std::mem::forget(pkt);
        } else { assert!(false); }
        std::mem::forget(p);
    }

    // P2b: 1 field x 2 records (+1 pad byte), real kernel
    #[kani::proof]
    #[kani::stub(core::fmt::write, no_fmt)]
    fn p2b_1f2r() {
        let mut p = V9Parser::default();
        p.templates.insert(256, VTemplate { template_id: 256, field_count: 1, fields: vec![
            VField { field_type_number: 7, field_type: V9Field::L4SrcPort, field_length: 2 },
        ]});
        let mut buf: [u8; 18 + 4 + 5] = kani::any();
        buf[0] = 0; buf[1] = 1; buf[18] = 1; buf[19] = 0; buf[20] = 0; buf[21] = 9;
        if let Ok((_rem, m)) = V9::parse(&buf, &mut p) {
            if let netflow_parser::variable_versions::v9::FlowSetBody::Data(d) = &m.flowsets[0].body {
                assert!(d.fields.len() == 2);
                assert!(d.padding.len() == 1);
            } else { assert!(false); }
            std::mem::forget(m);
        } else { assert!(false); }
        std::mem::forget(p);
    }
    // P2c: 2 fields x 1 record, real kernel
    #[kani::proof]
    #[kani::stub(core::fmt::write, no_fmt)]
    fn p2c_2f1r() {
        let mut p = V9Parser::default();
        p.templates.insert(256, VTemplate { template_id: 256, field_count: 2, fields: vec![
            VField { field_type_number: 7, field_type: V9Field::L4SrcPort, field_length: 2 },
            VField { field_type_number: 8, field_type: V9Field::Ipv4SrcAddr, field_length: 4 },
        ]});
        let mut buf: [u8; 18 + 4 + 6] = kani::any();
        buf[0] = 0; buf[1] = 1; buf[18] = 1; buf[19] = 0; buf[20] = 0; buf[21] = 10;
        if let Ok((_rem, m)) = V9::parse(&buf, &mut p) {
            if let netflow_parser::variable_versions::v9::FlowSetBody::Data(d) = &m.flowsets[0].body {
                assert!(d.fields.len() == 1);
                assert!(d.padding.len() == 0);
            } else { assert!(false); }
            std::mem::forget(m);
        } else { assert!(false); }
        std::mem::forget(p);
    }
}
