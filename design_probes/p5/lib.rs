#[cfg(kani)]
mod h {
    use netflow_parser::variable_versions::data_number::{FieldValue, DataNumber, FieldDataType};
    use netflow_parser::variable_versions::v9::{V9Parser, Template as VTemplate, TemplateField as VField, FlowSet as VFlowSet, FlowSetBody as VBody, Data as VData, OptionsData as VOptionsData, OptionsTemplate as VOT};
    use netflow_parser::variable_versions::v9_lookup::V9Field;
    use netflow_parser::variable_versions::ipfix::{IPFixParser, Template as ITemplate, TemplateField as IField, Data as IData};
    use netflow_parser::variable_versions::ipfix_lookup::IPFixField;

    pub fn no_fmt(_o: &mut dyn core::fmt::Write, _a: core::fmt::Arguments<'_>) -> core::fmt::Result { Ok(()) }

    pub fn width(ty: &FieldDataType, len: u16) -> Option<usize> {
        match ty {
            FieldDataType::UnsignedDataNumber | FieldDataType::SignedDataNumber | FieldDataType::DurationSeconds
            | FieldDataType::DurationMillis | FieldDataType::DurationMicros | FieldDataType::DurationNanos => {
                if len == 1 || len == 2 || len == 3 || len == 4 || len == 8 || len == 16 { Some(len as usize) } else { None }
            }
            FieldDataType::String | FieldDataType::Vec | FieldDataType::Unknown => Some(len as usize),
            FieldDataType::Ip4Addr => Some(4), FieldDataType::Ip6Addr => Some(16), FieldDataType::MacAddr => Some(6),
            FieldDataType::ProtocolType => Some(1), FieldDataType::Float64 => Some(8),
        }
    }
    pub fn fft_model<'a>(remaining: &'a [u8], ty: FieldDataType, len: u16) -> nom::IResult<&'a [u8], FieldValue> {
        let need = match width(&ty, len) { Some(n) => n, None => return Err(nom::Err::Error(nom::error::Error::new(remaining, nom::error::ErrorKind::Fail))) };
        if remaining.len() < need { return Err(nom::Err::Error(nom::error::Error::new(remaining, nom::error::ErrorKind::Eof))); }
        Ok((&remaining[need..], FieldValue::DataNumber(DataNumber::U64(((remaining.as_ptr() as usize as u64) << 16) | need as u64))))
    }

    // K: kernel contract (consumption) + re-export round trip, one harness per data type
    macro_rules! kernel {
        ($name:ident, $ty:expr, $maxb:expr, $unw:expr) => {
            #[kani::proof]
            #[kani::unwind($unw)]
            #[kani::stub(core::fmt::write, no_fmt)]
            fn $name() {
                let buf: [u8; $maxb] = kani::any();
                let n: usize = kani::any(); kani::assume(n <= $maxb);
                let len: u16 = kani::any();
                let w = width(&$ty, len);
                match FieldValue::from_field_type(&buf[..n], $ty, len) {
                    Ok((rem, v)) => {
                        assert!(w.is_some() && w.unwrap() <= n);
                        assert!(rem.len() == n - w.unwrap());
                        if let Ok(out) = v.to_be_bytes() {
                            kani::cover!(out.len() == w.unwrap());
                            let rt_ok = out.len() == w.unwrap();
                            let i: usize = kani::any(); kani::assume(i < out.len() && i < w.unwrap());
                            kani::cover!(rt_ok && out[i] != buf[i]);   // lossy re-export witness
                            std::mem::forget(out);
                        }
                        std::mem::forget(v);
                    }
                    Err(e) => { std::mem::forget(e); }
                }
            }
        };
    }
    kernel!(k_unsigned, FieldDataType::UnsignedDataNumber, 17, 18);
    kernel!(k_signed, FieldDataType::SignedDataNumber, 17, 18);
    kernel!(k_dsec, FieldDataType::DurationSeconds, 17, 18);
    kernel!(k_dmilli, FieldDataType::DurationMillis, 17, 18);
    kernel!(k_ip4, FieldDataType::Ip4Addr, 6, 7);
    kernel!(k_ip6, FieldDataType::Ip6Addr, 17, 18);
    kernel!(k_mac, FieldDataType::MacAddr, 7, 8);
    kernel!(k_proto, FieldDataType::ProtocolType, 3, 4);
    kernel!(k_f64, FieldDataType::Float64, 9, 10);
    kernel!(k_vec, FieldDataType::Vec, 5, 6);
    kernel!(k_unknown, FieldDataType::Unknown, 5, 6);
    kernel!(k_string, FieldDataType::String, 4, 6);

    // S: v9::FlowSet::parse, symbolic cache (1 template + 1 options template, symbolic ids), D-layer stubbed
    pub fn vdata_model<'a>(i: &'a [u8], parser: &mut V9Parser, id: u16) -> nom::IResult<&'a [u8], VData> where 'a: 'a {
        assert!(parser.templates.contains_key(&id) && !parser.options_templates.contains_key(&id));
        Ok((&i[i.len()..], VData { fields: Vec::new(), padding: Vec::new() }))
    }
    pub fn vodata_model<'a>(i: &'a [u8], parser: &mut V9Parser, id: u16) -> nom::IResult<&'a [u8], VOptionsData> where 'a: 'a {
        assert!(parser.options_templates.contains_key(&id));
        Ok((&i[i.len()..], VOptionsData { scope_fields: Vec::new(), options_fields: Vec::new(), padding: Vec::new() }))
    }
    #[kani::proof]
    #[kani::unwind(5)]
    #[kani::stub(core::fmt::write, no_fmt)]
    #[kani::stub(netflow_parser::variable_versions::v9::Data::parse, vdata_model)]
    #[kani::stub(netflow_parser::variable_versions::v9::OptionsData::parse, vodata_model)]
    fn s_v9_flowset() {
        let mut p = V9Parser::default();
        let tid: u16 = kani::any(); let oid: u16 = kani::any();
        p.templates.insert(tid, VTemplate { template_id: tid, field_count: 1, fields: vec![VField { field_type_number: 1, field_type: V9Field::InBytes, field_length: kani::any() }] });
        p.options_templates.insert(oid, VOT { template_id: oid, options_scope_length: 0, options_length: 0, scope_fields: vec![], option_fields: vec![] });
        let mut buf: [u8; 16] = kani::any();
        let n: usize = 16;
        let id = ((buf[0] as u16) << 8) | buf[1] as u16;
        let len = ((buf[2] as u16) << 8) | buf[3] as u16;
        let r = VFlowSet::parse(&buf, &mut p);
        match &r {
            Ok((rem, fs)) => {
                let body = if len < 4 { 0 } else { (len - 4) as usize };
                assert!(n >= 4 + body);
                assert!(rem.len() == n - 4 - body);
                assert!(id == 0 || id == 1 || id == tid || id == oid);
                kani::cover!(id == tid && id != oid);
            }
            Err(_) => { assert!(n < 4 || n < len as usize || id == 0 || id == 1 || (id != tid && id != oid)); kani::cover!(n >= 4 && n >= len as usize); }
        }
        kani::cover!(p.templates.len() == 2);
        std::mem::forget(r); std::mem::forget(p);
    }

    // D-e2e: v9::Data::parse, 1 field x <=1 record, REAL kernel
    #[kani::proof]
    #[kani::stub(core::fmt::write, no_fmt)]
    fn d_v9_real_1x1() {
        let mut p = V9Parser::default();
        p.templates.insert(256, VTemplate { template_id: 256, field_count: 1, fields: vec![VField { field_type_number: 7, field_type: V9Field::L4SrcPort, field_length: 2 }] });
        let buf: [u8; 3] = kani::any();
        let r = VData::parse(&buf, &mut p, 256);
        match &r {
            Ok((_rem, d)) => {
                assert!(d.fields.len() == 1 && d.padding.len() == 1);
                let v = &d.fields[0].get(&0).unwrap().1;
                assert!(*v == FieldValue::DataNumber(DataNumber::U16(((buf[0] as u16) << 8) | buf[1] as u16)));
            }
            Err(_) => assert!(false),
        }
        std::mem::forget(r); std::mem::forget(p);
    }

    // D IPFIX: ipfix::Data::parse with kernel model; 2 fields, lengths symbolic in {0..3}, <=2 records
    #[kani::proof]
    #[kani::stub(core::fmt::write, no_fmt)]
    #[kani::stub(netflow_parser::variable_versions::data_number::FieldValue::from_field_type, fft_model)]
    fn d_ipfix_model() {
        let l0: u16 = kani::any(); let l1: u16 = kani::any();
        kani::assume(l0 <= 3 && l1 <= 3 && l0 + l1 > 0);
        let mut p = IPFixParser::default();
        p.templates.insert(256, ITemplate { template_id: 256, field_count: 2, fields: vec![
            IField { field_type_number: 95, field_type: IPFixField::ApplicationId, field_length: l0, enterprise_number: None },
            IField { field_type_number: 95, field_type: IPFixField::ApplicationId, field_length: l1, enterprise_number: None },
        ], padding: vec![] });
        let buf: [u8; 10] = kani::any();
        let n: usize = kani::any(); kani::assume(n <= 10);
        let size = (l0 + l1) as usize;
        kani::assume(n < 3 * size);
        let r = IData::parse(&buf[..n], &mut p, 256);
        match &r {
            Ok((rem, d)) => {
                assert!(rem.is_empty());
                assert!(n >= size);
                assert!(d.fields.len() == 2 * (n / size));   // one map per FIELD today
                assert!(d.padding.len() == n % size);
                kani::cover!(n / size == 2);
            }
            Err(_) => { assert!(n < size); }
        }
        std::mem::forget(r); std::mem::forget(p);
    }

    // D V9, full-length slice (no symbolic truncation), symbolic field lengths, kernel model
    #[kani::proof]
    #[kani::stub(core::fmt::write, no_fmt)]
    #[kani::stub(netflow_parser::variable_versions::data_number::FieldValue::from_field_type, fft_model)]
    fn d_v9_full() {
        let l0: u16 = kani::any(); let l1: u16 = kani::any();
        kani::assume(l0 <= 3 && l1 <= 3 && l0 + l1 >= 2);
        let mut p = V9Parser::default();
        p.templates.insert(256, VTemplate { template_id: 256, field_count: 2, fields: vec![
            VField { field_type_number: 95, field_type: V9Field::ApplicationTag, field_length: l0 },
            VField { field_type_number: 90, field_type: V9Field::MplsPalRd, field_length: l1 },
        ]});
        let buf: [u8; 7] = kani::any();
        let size = (l0 + l1) as usize;
        let r = VData::parse(&buf, &mut p, 256);
        match &r {
            Ok((rem, d)) => {
                assert!(rem.is_empty());
                assert!(d.fields.len() == 7 / size);
                assert!(d.padding.len() == 7 % size);
                if d.fields.len() >= 2 {
                    let base = buf.as_ptr() as usize as u64;
                    let v = &d.fields[1].get(&1).unwrap().1;
                    assert!(*v == FieldValue::DataNumber(DataNumber::U64(((base + size as u64 + l0 as u64) << 16) | l1 as u64)));
                }
                kani::cover!(d.fields.len() == 3 && d.padding.len() == 1);
            }
            Err(_) => assert!(false),
        }
        std::mem::forget(r); std::mem::forget(p);
    }

    // D IPFIX, full-length slice, symbolic lengths (incl. zero), kernel model
    #[kani::proof]
    #[kani::stub(core::fmt::write, no_fmt)]
    #[kani::stub(netflow_parser::variable_versions::data_number::FieldValue::from_field_type, fft_model)]
    fn d_ipfix_full() {
        let l0: u16 = kani::any(); let l1: u16 = kani::any();
        kani::assume(l0 <= 3 && l1 <= 3 && l0 + l1 >= 2);
        let mut p = IPFixParser::default();
        p.templates.insert(256, ITemplate { template_id: 256, field_count: 2, fields: vec![
            IField { field_type_number: 95, field_type: IPFixField::ApplicationId, field_length: l0, enterprise_number: None },
            IField { field_type_number: 95, field_type: IPFixField::ApplicationId, field_length: l1, enterprise_number: None },
        ], padding: vec![] });
        let buf: [u8; 7] = kani::any();
        let size = (l0 + l1) as usize;
        let r = IData::parse(&buf, &mut p, 256);
        match &r {
            Ok((rem, d)) => {
                assert!(rem.is_empty());
                assert!(d.fields.len() == 2 * (7 / size));
                assert!(d.padding.len() == 7 % size);
                kani::cover!(d.fields.len() == 6);
            }
            Err(_) => assert!(false),
        }
        std::mem::forget(r); std::mem::forget(p);
    }
}
