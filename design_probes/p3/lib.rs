#[cfg(kani)]
mod h {
    use netflow_parser::protocol::ProtocolTypes;
    #[kani::proof]
    fn proto_roundtrip() {
        let n: u8 = kani::any();
        kani::assume(n <= 144);
        let p = ProtocolTypes::from(n);
        assert!(u8::from(p) == n);
    }

    #[test]
    fn kani_concrete_playback_proto_roundtrip_1() {
        let concrete_vals: Vec<Vec<u8>> = vec![vec![1]];
        kani::concrete_playback_run(concrete_vals, proto_roundtrip);
    }
}
