//! H: multi-step *histories* through the public API only (`NetflowParser::parse_bytes`,
//! `to_be_bytes`, the public cache fields) with the real V9 / IPFIX decoders.
//!
//! Every structure-selecting byte of a history (versions, counts, set ids and lengths, template
//! ids, field specifiers, variable-length prefixes) is *written*; header words, data bytes and
//! padding are symbolic, so one harness decides its history for every payload.  The expected
//! result of each history is spelled out from RFC 3954 / RFC 7011 by hand (offsets are
//! concrete), not computed by the library.
//!
//! Because only the public API is used, these harnesses keep compiling when internal
//! functions change their signatures.
use crate::common::*;
use crate::km::unsigned_kernel_model;
use netflow_parser::variable_versions::data_number::{DataNumber, FieldValue};
use netflow_parser::variable_versions::ipfix_lookup::IPFixField;
use netflow_parser::variable_versions::v9_lookup::V9Field;
use netflow_parser::variable_versions::{ipfix, v9};
use netflow_parser::{NetflowPacket, NetflowParser};

/// Buffer builder: `o` stays concrete, so every offset below is a constant for symex.
pub struct B<'a, const N: usize> {
    pub b: &'a mut [u8; N],
    pub o: usize,
}
impl<'a, const N: usize> B<'a, N> {
    /// The array lives in the harness frame and is never copied: a copy (memcpy) would hide
    /// the written structure bytes from symex's constant propagation.
    pub fn on(b: &'a mut [u8; N]) -> Self {
        B { b, o: 0 }
    }
    pub fn w16(&mut self, v: u16) -> &mut Self {
        put16(&mut self.b[..], self.o, v);
        self.o += 2;
        self
    }
    pub fn w8(&mut self, v: u8) -> &mut Self {
        self.b[self.o] = v;
        self.o += 1;
        self
    }
    /// leave `n` bytes symbolic; returns their offset
    pub fn sym(&mut self, n: usize) -> usize {
        let s = self.o;
        self.o += n;
        s
    }
    pub fn ipfix_hdr(&mut self, len: u16) -> usize {
        let s = self.o;
        self.w16(10).w16(len);
        self.sym(12);
        s
    }
    pub fn v9_hdr(&mut self, count: u16) -> usize {
        let s = self.o;
        self.w16(9).w16(count);
        self.sym(16);
        s
    }
    pub fn set(&mut self, id: u16, len: u16) -> &mut Self {
        self.w16(id).w16(len)
    }
    /// plain field specifier
    pub fn spec(&mut self, ty: u16, len: u16) -> &mut Self {
        self.w16(ty).w16(len)
    }
    /// enterprise-specific field specifier; the 4-byte enterprise number stays symbolic
    pub fn espec(&mut self, ty: u16, len: u16) -> usize {
        self.w16(0x8000 | ty).w16(len);
        self.sym(4)
    }
    pub fn done(&self) {
        assert!(self.o == N);
    }
}

fn u16v(b: &[u8], o: usize) -> FieldValue {
    FieldValue::DataNumber(DataNumber::U16(be16(b, o)))
}
fn u32v(b: &[u8], o: usize) -> FieldValue {
    FieldValue::DataNumber(DataNumber::U32(be32(b, o)))
}
fn u8v(b: &[u8], o: usize) -> FieldValue {
    FieldValue::DataNumber(DataNumber::U8(b[o]))
}

fn as_ipfix(p: &NetflowPacket) -> &ipfix::IPFix {
    match p {
        NetflowPacket::IPFix(m) => m,
        _ => panic!("not IPFIX"),
    }
}
fn as_v9(p: &NetflowPacket) -> &v9::V9 {
    match p {
        NetflowPacket::V9(m) => m,
        _ => panic!("not V9"),
    }
}
fn ipfix_data(fs: &ipfix::FlowSet) -> &ipfix::Data {
    match &fs.body {
        ipfix::FlowSetBody::Data(d) => d,
        _ => panic!("not a data set"),
    }
}
fn ipfix_odata(fs: &ipfix::FlowSet) -> &ipfix::OptionsData {
    match &fs.body {
        ipfix::FlowSetBody::OptionsData(d) => d,
        _ => panic!("not an options data set"),
    }
}
fn v9_data(fs: &v9::FlowSet) -> &v9::Data {
    match &fs.body {
        v9::FlowSetBody::Data(d) => d,
        _ => panic!("not a data flowset"),
    }
}
/// flattened IPFIX result: entry `k` is a single-entry map {index -> (type, value)}
macro_rules! ipfix_field_is {
    ($fields:expr, $k:expr, $idx:expr, $ty:expr, $v:expr) => {{
        assert!($fields[$k].len() == 1);
        let (t, x) = $fields[$k].get(&$idx).unwrap();
        assert!(*t == $ty);
        assert!(x == $v);
    }};
}
fn bytes_eq(v: &[u8], b: &[u8], o: usize, n: usize) {
    assert!(v.len() == n);
    let mut i = 0;
    while i < n {
        assert!(v[i] == b[o + i]);
        i += 1;
    }
}

// ------------------------------------------------------------------------------------------
// IPFIX
// ------------------------------------------------------------------------------------------

/// I1 (C05/C06/C07/C11): template 256 = {sourceTransportPort/2, octetDeltaCount/4}; a data
/// set with three 6-byte records + 2 padding bytes in the same message; then a second message
/// with one more record.  All record values symbolic (so all-zero records, 0xFF.. records
/// etc. are covered): 3 + 1 records in order, padding as sent, cache holds exactly 256.
#[kani::proof]
#[kani::stub(core::fmt::write, no_fmt)]
#[kani::stub(netflow_parser::variable_versions::data_number::FieldValue::from_field_type, unsigned_kernel_model)]
fn h_ipfix_template_data_3rec() {
    const M1: usize = 16 + 16 + 4 + 20;
    const M2: usize = 16 + 4 + 6;
    let mut b: [u8; { M1 + M2 }] = kani::any();
    let mut x = B::on(&mut b);
    x.ipfix_hdr(M1 as u16);
    x.set(2, 16).w16(256).w16(2).spec(7, 2).spec(1, 4);
    x.set(256, 24);
    let d1 = x.sym(20);
    x.ipfix_hdr(M2 as u16);
    x.set(256, 10);
    let d2 = x.sym(6);
    x.done();
    drop(x);
    let mut p = NetflowParser::default();
    let r = p.parse_bytes(&b);
    assert!(r.len() == 2);
    let m1 = as_ipfix(&r[0]);
    assert!(m1.header.length == M1 as u16 && m1.header.export_time == be32(&b, 4));
    assert!(m1.flowsets.len() == 2);
    match &m1.flowsets[0].body {
        ipfix::FlowSetBody::Template(t) => {
            assert!(t.template_id == 256 && t.field_count == 2 && t.fields.len() == 2);
            assert!(t.fields[0].field_type_number == 7 && t.fields[0].field_length == 2 && t.fields[0].enterprise_number.is_none());
            assert!(t.fields[1].field_type_number == 1 && t.fields[1].field_length == 4);
            assert!(t.padding.len() == 0);
        }
        _ => assert!(false),
    }
    let d = ipfix_data(&m1.flowsets[1]);
    assert!(d.fields.len() == 6);
    let mut k = 0;
    while k < 3 {
        ipfix_field_is!(&d.fields, 2 * k, 0, IPFixField::SourceTransportPort, &u16v(&b, d1 + 6 * k));
        ipfix_field_is!(&d.fields, 2 * k + 1, 1, IPFixField::OctetDeltaCount, &u32v(&b, d1 + 6 * k + 2));
        k += 1;
    }
    bytes_eq(&d.padding, &b, d1 + 18, 2);
    let m2 = as_ipfix(&r[1]);
    assert!(m2.flowsets.len() == 1);
    let e = ipfix_data(&m2.flowsets[0]);
    assert!(e.fields.len() == 2 && e.padding.len() == 0);
    ipfix_field_is!(&e.fields, 0, 0, IPFixField::SourceTransportPort, &u16v(&b, d2));
    ipfix_field_is!(&e.fields, 1, 1, IPFixField::OctetDeltaCount, &u32v(&b, d2 + 2));
    assert!(p.ipfix_parser.templates.len() == 1 && p.ipfix_parser.templates.contains_key(&256));
    assert!(p.ipfix_parser.options_templates.len() == 0);
    assert!(p.v9_parser.templates.len() == 0 && p.v9_parser.options_templates.len() == 0);
    core::mem::forget(r);
    core::mem::forget(p);
}

/// I2 (C06): template 256 = {octetDeltaCount/4, packetDeltaCount/2} re-announced with the same
/// field types and the same record size but other widths ({../2, ../4}); the latest
/// definition governs the data that follows, in the same call and in a later call.
#[kani::proof]
#[kani::stub(core::fmt::write, no_fmt)]
#[kani::stub(netflow_parser::variable_versions::data_number::FieldValue::from_field_type, unsigned_kernel_model)]
fn h_ipfix_redefine_same_size() {
    const M1: usize = 16 + 16;
    const M2: usize = 16 + 16 + 4 + 6;
    const M3: usize = 16 + 4 + 6;
    let mut b: [u8; { M1 + M2 + M3 }] = kani::any();
    let mut x = B::on(&mut b);
    x.ipfix_hdr(M1 as u16);
    x.set(2, 16).w16(256).w16(2).spec(1, 4).spec(2, 2);
    x.ipfix_hdr(M2 as u16);
    x.set(2, 16).w16(256).w16(2).spec(1, 2).spec(2, 4);
    x.set(256, 10);
    let d2 = x.sym(6);
    x.ipfix_hdr(M3 as u16);
    x.set(256, 10);
    let d3 = x.sym(6);
    x.done();
    drop(x);
    let mut p = NetflowParser::default();
    let r1 = p.parse_bytes(&b[..M1 + M2]);
    let r2 = p.parse_bytes(&b[M1 + M2..]);
    assert!(r1.len() == 2 && r2.len() == 1);
    let m2 = as_ipfix(&r1[1]);
    assert!(m2.flowsets.len() == 2);
    let d = ipfix_data(&m2.flowsets[1]);
    assert!(d.fields.len() == 2 && d.padding.len() == 0);
    ipfix_field_is!(&d.fields, 0, 0, IPFixField::OctetDeltaCount, &u16v(&b, d2));
    ipfix_field_is!(&d.fields, 1, 1, IPFixField::PacketDeltaCount, &u32v(&b, d2 + 2));
    let m3 = as_ipfix(&r2[0]);
    assert!(m3.flowsets.len() == 1);
    let e = ipfix_data(&m3.flowsets[0]);
    assert!(e.fields.len() == 2 && e.padding.len() == 0);
    ipfix_field_is!(&e.fields, 0, 0, IPFixField::OctetDeltaCount, &u16v(&b, d3));
    ipfix_field_is!(&e.fields, 1, 1, IPFixField::PacketDeltaCount, &u32v(&b, d3 + 2));
    let t = p.ipfix_parser.templates.get(&256).unwrap();
    assert!(t.fields.len() == 2 && t.fields[0].field_length == 2 && t.fields[1].field_length == 4);
    core::mem::forget(r1);
    core::mem::forget(r2);
    core::mem::forget(p);
}

/// I3 (C06): options template 260 redefined by *appending* a field (and, second harness, by
/// dropping the last field): the latest definition governs the options data that follows.
macro_rules! h_ipfix_options_redefine {
    ($name:ident, $first:expr, $second:expr) => {
        #[kani::proof]
        #[kani::stub(core::fmt::write, no_fmt)]
        #[kani::stub(netflow_parser::variable_versions::data_number::FieldValue::from_field_type, unsigned_kernel_model)]
        fn $name() {
            const F1: usize = $first;
            const F2: usize = $second;
            const S1: usize = 4 + 6 + 4 * F1;
            const S2: usize = 4 + 6 + 4 * F2;
            const REC: usize = 2 * F2;
            const M: usize = 16 + S1 + S2 + 4 + REC;
            let mut b: [u8; M] = kani::any();
    let mut x = B::on(&mut b);
            x.ipfix_hdr(M as u16);
            x.set(3, S1 as u16).w16(260).w16(F1 as u16).w16(1);
            let mut i = 0;
            while i < F1 {
                x.spec(if i == 0 { 7 } else { 11 }, 2);
                i += 1;
            }
            x.set(3, S2 as u16).w16(260).w16(F2 as u16).w16(1);
            let mut i = 0;
            while i < F2 {
                x.spec(if i == 0 { 7 } else { 11 }, 2);
                i += 1;
            }
            x.set(260, (4 + REC) as u16);
            let d = x.sym(REC);
            x.done();
            drop(x);
            let mut p = NetflowParser::default();
            let r = p.parse_bytes(&b);
            assert!(r.len() == 1);
            let m = as_ipfix(&r[0]);
            assert!(m.flowsets.len() == 3);
            let od = ipfix_odata(&m.flowsets[2]);
            assert!(od.fields.len() == F2 && od.padding.len() == 0);
            ipfix_field_is!(&od.fields, 0, 0, IPFixField::SourceTransportPort, &u16v(&b, d));
            if F2 > 1 {
                ipfix_field_is!(&od.fields, 1, 1, IPFixField::DestinationTransportPort, &u16v(&b, d + 2));
            }
            let t = p.ipfix_parser.options_templates.get(&260).unwrap();
            assert!(t.fields.len() == F2 && t.field_count == F2 as u16);
            assert!(p.ipfix_parser.templates.len() == 0 && p.ipfix_parser.options_templates.len() == 1);
            core::mem::forget(r);
            core::mem::forget(p);
        }
    };
}
h_ipfix_options_redefine!(h_ipfix_options_redefine_append, 1, 2);
h_ipfix_options_redefine!(h_ipfix_options_redefine_drop, 2, 1);

/// I4 (C07/C06): a data set for an id nobody defined is omitted and leaves BOTH caches empty;
/// when the id is then defined as an *options* template, the same data bytes decode as
/// options data; an undecodable (too short) data set does not evict the template.
#[kani::proof]
#[kani::stub(core::fmt::write, no_fmt)]
#[kani::stub(netflow_parser::variable_versions::data_number::FieldValue::from_field_type, unsigned_kernel_model)]
fn h_ipfix_unknown_then_options_template() {
    const M1: usize = 16 + 4 + 4;
    const M2: usize = 16 + 14;
    const M3: usize = 16 + 4 + 1; // data set shorter than one record
    const M4: usize = 16 + 4 + 4;
    let mut b: [u8; { M1 + M2 + M3 + M4 }] = kani::any();
    let mut x = B::on(&mut b);
    x.ipfix_hdr(M1 as u16);
    x.set(300, 8);
    let d1 = x.sym(4);
    x.ipfix_hdr(M2 as u16);
    x.set(3, 14).w16(300).w16(1).w16(1).spec(1, 4);
    x.ipfix_hdr(M3 as u16);
    x.set(300, 5);
    x.sym(1);
    x.ipfix_hdr(M4 as u16);
    x.set(300, 8);
    let d4 = x.sym(4);
    x.done();
    drop(x);
    let mut p = NetflowParser::default();
    let r1 = p.parse_bytes(&b[..M1]);
    assert!(r1.len() == 1);
    assert!(as_ipfix(&r1[0]).flowsets.len() == 0);
    assert!(p.ipfix_parser.templates.len() == 0 && p.ipfix_parser.options_templates.len() == 0);
    let r2 = p.parse_bytes(&b[M1..]);
    assert!(r2.len() == 3);
    assert!(as_ipfix(&r2[0]).flowsets.len() == 1);
    assert!(as_ipfix(&r2[1]).flowsets.len() == 0);
    let m4 = as_ipfix(&r2[2]);
    assert!(m4.flowsets.len() == 1);
    let od = ipfix_odata(&m4.flowsets[0]);
    assert!(od.fields.len() == 1 && od.padding.len() == 0);
    ipfix_field_is!(&od.fields, 0, 0, IPFixField::OctetDeltaCount, &u32v(&b, d4));
    assert!(p.ipfix_parser.templates.len() == 0 && p.ipfix_parser.options_templates.len() == 1);
    // once defined, the bytes that were refused in message 1 decode
    let r3 = p.parse_bytes(&b[..M1]);
    assert!(r3.len() == 1);
    let m = as_ipfix(&r3[0]);
    assert!(m.flowsets.len() == 1);
    let od = ipfix_odata(&m.flowsets[0]);
    ipfix_field_is!(&od.fields, 0, 0, IPFixField::OctetDeltaCount, &u32v(&b, d1));
    core::mem::forget(r1);
    core::mem::forget(r2);
    core::mem::forget(r3);
    core::mem::forget(p);
}

/// I5 (C05): template made only of variable-length enterprise fields; three records whose
/// length prefixes are written (0+0 / 2+1 / 0+3 value bytes, one of them through the 3-byte
/// prefix form), values symbolic: every record is reported, empty values included.
#[kani::proof]
#[kani::stub(core::fmt::write, no_fmt)]
#[kani::stub(netflow_parser::variable_versions::data_number::FieldValue::from_field_type, unsigned_kernel_model)]
fn h_ipfix_varlen_empty_values() {
    const TS: usize = 4 + 4 + 8 + 8;
    const BODY: usize = (1 + 0 + 1 + 0) + (1 + 2 + 3 + 1) + (1 + 0 + 1 + 3);
    const M: usize = 16 + TS + 4 + BODY;
    let mut b: [u8; M] = kani::any();
    let mut x = B::on(&mut b);
    x.ipfix_hdr(M as u16);
    x.set(2, TS as u16).w16(256).w16(2);
    let e0 = x.espec(1, 65535);
    let e1 = x.espec(2, 65535);
    x.set(256, (4 + BODY) as u16);
    x.w8(0).w8(0);
    x.w8(2);
    let a = x.sym(2);
    x.w8(255).w16(1);
    let c = x.sym(1);
    x.w8(0).w8(3);
    let g = x.sym(3);
    x.done();
    drop(x);
    let mut p = NetflowParser::default();
    let r = p.parse_bytes(&b);
    assert!(r.len() == 1);
    let m = as_ipfix(&r[0]);
    assert!(m.flowsets.len() == 2);
    match &m.flowsets[0].body {
        ipfix::FlowSetBody::Template(t) => {
            assert!(t.fields.len() == 2);
            assert!(t.fields[0].enterprise_number == Some(be32(&b, e0)) && t.fields[0].field_length == 65535);
            assert!(t.fields[1].enterprise_number == Some(be32(&b, e1)));
        }
        _ => assert!(false),
    }
    let d = ipfix_data(&m.flowsets[1]);
    assert!(d.fields.len() == 6);
    assert!(d.padding.len() == 0);
    let lens = [0usize, 0, 2, 1, 0, 3];
    let offs = [0usize, 0, a, c, 0, g];
    let mut k = 0;
    while k < 6 {
        assert!(d.fields[k].len() == 1);
        let (t, v) = d.fields[k].get(&(k % 2)).unwrap();
        assert!(*t == IPFixField::Enterprise);
        match v {
            FieldValue::Vec(bytes) => bytes_eq(bytes, &b, offs[k], lens[k]),
            _ => assert!(false),
        }
        k += 1;
    }
    core::mem::forget(r);
    core::mem::forget(p);
}

/// I6 (C10/C05): the same template id announced twice with identical fields but different
/// trailing padding: each message is reported as sent and re-exports to exactly its own bytes.
#[kani::proof]
#[kani::stub(core::fmt::write, no_fmt)]
fn h_ipfix_template_twice_padding_reexport() {
    const M1: usize = 16 + 12;
    const M2: usize = 16 + 12 + 3;
    let mut b: [u8; { M1 + M2 }] = kani::any();
    let mut x = B::on(&mut b);
    x.ipfix_hdr(M1 as u16);
    x.set(2, 12).w16(256);
    x.w16(1).spec(1, 4);
    x.ipfix_hdr(M2 as u16);
    x.set(2, 15).w16(256);
    x.w16(1).spec(1, 4);
    let pad = x.sym(3);
    x.done();
    drop(x);
    let mut p = NetflowParser::default();
    let r = p.parse_bytes(&b);
    assert!(r.len() == 2);
    let m1 = as_ipfix(&r[0]);
    let m2 = as_ipfix(&r[1]);
    match (&m1.flowsets[0].body, &m2.flowsets[0].body) {
        (ipfix::FlowSetBody::Template(t1), ipfix::FlowSetBody::Template(t2)) => {
            assert!(t1.padding.len() == 0);
            bytes_eq(&t2.padding, &b, pad, 3);
        }
        _ => assert!(false),
    }
    let o1 = m1.to_be_bytes().unwrap();
    let o2 = m2.to_be_bytes().unwrap();
    bytes_eq(&o1, &b, 0, M1);
    bytes_eq(&o2, &b, M1, M2);
    core::mem::forget(o1);
    core::mem::forget(o2);
    core::mem::forget(r);
    core::mem::forget(p);
}

/// I7 (C11/C05): the last set of a message announces a length that reaches beyond the message:
/// it must not be completed with bytes of the next message in the buffer.  Chained and
/// per-call delivery agree (nothing is learned from the overlong set either way).
#[kani::proof]
#[kani::stub(core::fmt::write, no_fmt)]
fn h_ipfix_set_beyond_message() {
    const M1: usize = 16 + 12;
    const M2: usize = 16 + 12;
    let mut b: [u8; { M1 + M2 }] = kani::any();
    let mut x = B::on(&mut b);
    x.ipfix_hdr(M1 as u16);
    x.set(2, 20).w16(256).w16(3).spec(1, 4); // announces 20 bytes, 12 left in the message
    x.ipfix_hdr(M2 as u16);
    x.set(2, 12).w16(257).w16(1).spec(2, 4);
    x.done();
    drop(x);
    let mut p = NetflowParser::default();
    let r = p.parse_bytes(&b);
    assert!(r.len() == 2);
    assert!(as_ipfix(&r[0]).flowsets.len() == 0);
    assert!(as_ipfix(&r[1]).flowsets.len() == 1);
    assert!(p.ipfix_parser.templates.len() == 1 && p.ipfix_parser.templates.contains_key(&257));
    let mut q = NetflowParser::default();
    let s1 = q.parse_bytes(&b[..M1]);
    let s2 = q.parse_bytes(&b[M1..]);
    assert!(s1.len() == 1 && s2.len() == 1);
    assert!(as_ipfix(&s1[0]).flowsets.len() == 0);
    assert!(q.ipfix_parser.templates.len() == 1 && q.ipfix_parser.templates.contains_key(&257));
    core::mem::forget(r);
    core::mem::forget(s1);
    core::mem::forget(s2);
    core::mem::forget(p);
    core::mem::forget(q);
}

// ------------------------------------------------------------------------------------------
// V9
// ------------------------------------------------------------------------------------------

/// V1 (C04/C06): template 260 = {IN_BYTES/4, IN_PKTS/2} then re-announced as
/// {IN_BYTES/2, IN_PKTS/4} (same types, same record size), then data: decoded with the new
/// widths, two records + 1 padding byte; options-template cache untouched.
#[kani::proof]
#[kani::stub(core::fmt::write, no_fmt)]
#[kani::stub(netflow_parser::variable_versions::data_number::FieldValue::from_field_type, unsigned_kernel_model)]
fn h_v9_redefine_same_size() {
    const P1: usize = 20 + 16;
    const P2: usize = 20 + 16 + 4 + 13;
    let mut b: [u8; { P1 + P2 }] = kani::any();
    let mut x = B::on(&mut b);
    x.v9_hdr(1);
    x.set(0, 16).w16(260).w16(2).spec(1, 4).spec(2, 2);
    x.v9_hdr(2);
    x.set(0, 16).w16(260).w16(2).spec(1, 2).spec(2, 4);
    x.set(260, 17);
    let d = x.sym(13);
    x.done();
    drop(x);
    let mut p = NetflowParser::default();
    let r = p.parse_bytes(&b);
    assert!(r.len() == 2);
    let m = as_v9(&r[1]);
    assert!(m.header.count == 2 && m.header.sys_up_time == be32(&b, P1 + 4));
    assert!(m.flowsets.len() == 2);
    let dd = v9_data(&m.flowsets[1]);
    assert!(dd.fields.len() == 2);
    let mut k = 0;
    while k < 2 {
        assert!(dd.fields[k].len() == 2);
        let (t0, v0) = dd.fields[k].get(&0).unwrap();
        let (t1, v1) = dd.fields[k].get(&1).unwrap();
        assert!(*t0 == V9Field::InBytes && *t1 == V9Field::InPkts);
        assert!(*v0 == u16v(&b, d + 6 * k));
        assert!(*v1 == u32v(&b, d + 6 * k + 2));
        k += 1;
    }
    bytes_eq(&dd.padding, &b, d + 12, 1);
    let t = p.v9_parser.templates.get(&260).unwrap();
    assert!(t.fields[0].field_length == 2 && t.fields[1].field_length == 4);
    assert!(p.v9_parser.options_templates.len() == 0 && p.ipfix_parser.templates.len() == 0);
    core::mem::forget(r);
    core::mem::forget(p);
}

/// V2 (C04/C09): one flowset carrying two templates (256: {L4_SRC_PORT/2}, 257: {IN_BYTES/4,
/// PROTOCOL-free}), then data for both in one packet; decode and re-export == input.
#[kani::proof]
#[kani::stub(core::fmt::write, no_fmt)]
#[kani::stub(netflow_parser::variable_versions::data_number::FieldValue::from_field_type, unsigned_kernel_model)]
fn h_v9_two_templates_two_data() {
    const TF: usize = 4 + 8 + 12;
    const D1: usize = 4 + 4;
    const D2: usize = 4 + 8;
    const P: usize = 20 + TF + D1 + D2;
    let mut b: [u8; P] = kani::any();
    let mut x = B::on(&mut b);
    x.v9_hdr(3);
    x.set(0, TF as u16).w16(256).w16(1).spec(7, 2).w16(257).w16(2).spec(1, 4).spec(2, 2);
    x.set(256, D1 as u16);
    let a = x.sym(4);
    x.set(257, D2 as u16);
    let c = x.sym(8);
    x.done();
    drop(x);
    let mut p = NetflowParser::default();
    let r = p.parse_bytes(&b);
    assert!(r.len() == 1);
    let m = as_v9(&r[0]);
    assert!(m.flowsets.len() == 3);
    match &m.flowsets[0].body {
        v9::FlowSetBody::Template(t) => {
            assert!(t.templates.len() == 2 && t.padding.len() == 0);
            assert!(t.templates[0].template_id == 256 && t.templates[0].fields.len() == 1);
            assert!(t.templates[1].template_id == 257 && t.templates[1].fields.len() == 2);
            assert!(t.templates[1].fields[1].field_type_number == 2 && t.templates[1].fields[1].field_length == 2);
        }
        _ => assert!(false),
    }
    let d1 = v9_data(&m.flowsets[1]);
    assert!(d1.fields.len() == 2 && d1.padding.len() == 0);
    let (t, v) = d1.fields[1].get(&0).unwrap();
    assert!(*t == V9Field::L4SrcPort && *v == u16v(&b, a + 2));
    let d2 = v9_data(&m.flowsets[2]);
    assert!(d2.fields.len() == 1);
    let (t0, v0) = d2.fields[0].get(&0).unwrap();
    let (t1, v1) = d2.fields[0].get(&1).unwrap();
    assert!(*t0 == V9Field::InBytes && *v0 == u32v(&b, c));
    assert!(*t1 == V9Field::InPkts && *v1 == u16v(&b, c + 4));
    bytes_eq(&d2.padding, &b, c + 6, 2);
    assert!(p.v9_parser.templates.len() == 2);
    core::mem::forget(r);
    core::mem::forget(p);
}

/// V3 (C07/C06): data for an undefined id *before* the template flowset that defines it, in the
/// same packet: the packet is an error, nothing is cached, earlier packet still reported; the
/// same data decodes once the template has been received in a later packet.
#[kani::proof]
#[kani::stub(core::fmt::write, no_fmt)]
#[kani::stub(netflow_parser::variable_versions::data_number::FieldValue::from_field_type, unsigned_kernel_model)]
fn h_v9_data_before_template() {
    const P0: usize = 20;
    const P1: usize = 20 + 8 + 12;
    let mut b: [u8; { P0 + P1 }] = kani::any();
    let mut x = B::on(&mut b);
    x.v9_hdr(0);
    x.v9_hdr(2);
    x.set(300, 8);
    let d = x.sym(4);
    x.set(0, 12).w16(300).w16(1).spec(1, 4);
    x.done();
    drop(x);
    let mut p = NetflowParser::default();
    let r = p.parse_bytes(&b);
    assert!(r.len() == 2);
    assert!(as_v9(&r[0]).flowsets.len() == 0);
    match &r[1] {
        NetflowPacket::Error(e) => bytes_eq(&e.remaining, &b, P0, P1),
        _ => assert!(false),
    }
    assert!(p.v9_parser.templates.len() == 0 && p.v9_parser.options_templates.len() == 0);
    core::mem::forget(r);
    core::mem::forget(p);
}

