#!/bin/bash
# usage: run1.sh harness default_unwind(or "attr")
h=$1; U=$2
cd /tmp/probe/p5
T=/tmp/probe/t5_$h
if [ "$U" = "attr" ]; then
  ( time timeout 1500 bash -c "cargo kani -Z stubbing --target-dir $T --harness h::$h --exact" ) > /tmp/probe/$h.log 2>&1
else
  cargo kani -Z stubbing -Z unstable-options --target-dir $T --harness h::$h --exact --cbmc-args --show-loops > /dev/null 2>&1
  G=$(ls -t $T/kani/x86_64-unknown-linux-gnu/debug/build/p5/*/out/*$h.out | head -1)
  US=$(python3 /tmp/probe/mkunwind.py $G)
  ( time timeout 1500 bash -c "cargo kani -Z stubbing -Z unstable-options --target-dir $T --harness h::$h --exact --cbmc-args --unwind $U --unwindset '$US'" ) > /tmp/probe/$h.log 2>&1
fi
