#[cfg(kani)]
mod h {
    use netflow_parser::{NetflowPacket, NetflowParser};

    pub fn no_fmt(_o: &mut dyn core::fmt::Write, _a: core::fmt::Arguments<'_>) -> core::fmt::Result { Ok(()) }

    // full entry: default parser (HashSet gate), V5, 1 record + 2 trailing bytes
    #[kani::proof]
    #[kani::unwind(5)]
    #[kani::stub(core::fmt::write, no_fmt)]
    fn pb_v5() {
        let buf: [u8; 74] = kani::any();
        kani::assume(buf[0] == 0 && buf[1] == 5 && buf[2] == 0 && buf[3] <= 1);
        let mut p = NetflowParser::default();
        let r = p.parse_bytes(&buf);
        assert!(r.len() >= 1);
        std::mem::forget(r);
        std::mem::forget(p);
    }

    // V9: template + data in one packet, everything symbolic but sizes
    #[kani::proof]
    #[kani::unwind(6)]
    #[kani::stub(core::fmt::write, no_fmt)]
    fn pb_v9() {
        let buf: [u8; 48] = kani::any();
        kani::assume(buf[0] == 0 && buf[1] == 9);
        let mut p = NetflowParser::default();
        let r = p.parse_bytes(&buf);
        assert!(r.len() >= 1);
        std::mem::forget(r);
        std::mem::forget(p);
    }

    #[kani::proof]
    #[kani::unwind(6)]
    #[kani::stub(core::fmt::write, no_fmt)]
    fn pb_ipfix() {
        let buf: [u8; 40] = kani::any();
        kani::assume(buf[0] == 0 && buf[1] == 10);
        let mut p = NetflowParser::default();
        let r = p.parse_bytes(&buf);
        assert!(r.len() >= 1);
        std::mem::forget(r);
        std::mem::forget(p);
    }
}
