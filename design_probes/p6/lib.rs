#[cfg(kani)]
mod h {
    use netflow_parser::variable_versions::v9::{V9Parser, V9, FlowSet, FlowSetHeader, FlowSetBody, Data};
    pub fn no_fmt(_o: &mut dyn core::fmt::Write, _a: core::fmt::Arguments<'_>) -> core::fmt::Result { Ok(()) }

    // S-hat: reads (id,len), consumes 4 + max(len,4)-4 body bytes, id 7 fails ("undecodable")
    pub fn flowset_model<'a>(i: &'a [u8], _p: &mut V9Parser) -> nom::IResult<&'a [u8], FlowSet> where 'a: 'a {
        if i.len() < 4 { return Err(nom::Err::Error(nom::error::Error::new(i, nom::error::ErrorKind::Eof))); }
        let id = ((i[0] as u16) << 8) | i[1] as u16;
        let len = ((i[2] as u16) << 8) | i[3] as u16;
        let body = if len < 4 { 0 } else { (len - 4) as usize };
        if i.len() < 4 + body || id == 7 { return Err(nom::Err::Error(nom::error::Error::new(i, nom::error::ErrorKind::Verify))); }
        Ok((&i[4 + body..], FlowSet { header: FlowSetHeader { flowset_id: id, length: len }, body: FlowSetBody::Data(Data { fields: Vec::new(), padding: Vec::new() }) }))
    }

    #[kani::proof]
    #[kani::stub(core::fmt::write, no_fmt)]
    #[kani::stub(netflow_parser::variable_versions::v9::FlowSet::parse, flowset_model)]
    fn p_v9_packet() {
        let mut buf: [u8; 18 + 12] = kani::any();
        buf[0] = 0; buf[20] = 0; buf[21] = 8; buf[28] = 0; buf[29] = 3;   // set lengths written: 8 then 3 (<4)
        let count = ((buf[0] as u16) << 8) | buf[1] as u16;
        kani::assume(count <= 2);
        let mut p = V9Parser::default();
        let r = V9::parse(&buf, &mut p);
        match &r {
            Ok((rem, v)) => {
                assert!(v.header.count == count);
                assert!(v.flowsets.len() <= count as usize);
                // consumed = 18 + sum max(len,4)
                let mut used = 18usize; let mut k = 0;
                while k < v.flowsets.len() { let l = v.flowsets[k].header.length as usize; used += if l < 4 { 4 } else { l }; k += 1; }
                assert!(rem.len() == 30 - used);
                assert!(v.flowsets.len() == count as usize || rem.is_empty());
                kani::cover!(v.flowsets.len() == 2);
                kani::cover!(v.flowsets.len() == 1 && rem.len() == 4);
                kani::cover!(v.flowsets.len() == 2 && rem.is_empty());
            }
            Err(_) => { kani::cover!(true); }
        }
        std::mem::forget(r); std::mem::forget(p);
    }
}
