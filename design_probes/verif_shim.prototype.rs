//! Verification-only container models (compiled only under cfg(kani) / cfg(netflow_parser_verif)).
//! Sorted association list with the observable semantics of a map/set.
use serde::ser::{Serialize, SerializeMap, SerializeSeq, Serializer};

#[derive(Debug, Clone, PartialEq, Eq, PartialOrd, Ord)]
pub struct VMap<K, V> {
    pub items: Vec<(K, V)>,
}
impl<K, V> Default for VMap<K, V> {
    fn default() -> Self { VMap { items: Vec::new() } }
}
impl<K: Ord, V> VMap<K, V> {
    pub fn new() -> Self { VMap { items: Vec::new() } }
    pub fn len(&self) -> usize { self.items.len() }
    pub fn is_empty(&self) -> bool { self.items.is_empty() }
    fn pos(&self, k: &K) -> Result<usize, usize> {
        let mut i = 0;
        while i < self.items.len() {
            if self.items[i].0 == *k { return Ok(i); }
            if self.items[i].0 > *k { return Err(i); }
            i += 1;
        }
        Err(i)
    }
    pub fn get(&self, k: &K) -> Option<&V> {
        match self.pos(k) { Ok(i) => Some(&self.items[i].1), Err(_) => None }
    }
    pub fn get_mut(&mut self, k: &K) -> Option<&mut V> {
        match self.pos(k) { Ok(i) => Some(&mut self.items[i].1), Err(_) => None }
    }
    pub fn contains_key(&self, k: &K) -> bool { self.pos(k).is_ok() }
    pub fn insert(&mut self, k: K, v: V) -> Option<V> {
        match self.pos(&k) {
            Ok(i) => Some(core::mem::replace(&mut self.items[i].1, v)),
            Err(i) => {
                if i == self.items.len() { self.items.push((k, v)); } else { self.items.insert(i, (k, v)); }
                None
            }
        }
    }
    pub fn remove(&mut self, k: &K) -> Option<V> {
        match self.pos(k) { Ok(i) => Some(self.items.remove(i).1), Err(_) => None }
    }
    pub fn clear(&mut self) { self.items.clear() }
    pub fn iter(&self) -> impl Iterator<Item = (&K, &V)> { self.items.iter().map(|(k, v)| (k, v)) }
    pub fn keys(&self) -> impl Iterator<Item = &K> { self.items.iter().map(|(k, _)| k) }
    pub fn values(&self) -> impl Iterator<Item = &V> { self.items.iter().map(|(_, v)| v) }
}
impl<K: Ord, V> Extend<(K, V)> for VMap<K, V> {
    fn extend<T: IntoIterator<Item = (K, V)>>(&mut self, iter: T) {
        for (k, v) in iter { self.insert(k, v); }
    }
}
impl<K: Ord, V> FromIterator<(K, V)> for VMap<K, V> {
    fn from_iter<T: IntoIterator<Item = (K, V)>>(iter: T) -> Self {
        let mut m = VMap::new();
        m.extend(iter);
        m
    }
}
impl<K: Ord, V, const N: usize> From<[(K, V); N]> for VMap<K, V> {
    fn from(a: [(K, V); N]) -> Self { a.into_iter().collect() }
}
impl<K: Serialize, V: Serialize> Serialize for VMap<K, V> {
    fn serialize<S: Serializer>(&self, s: S) -> Result<S::Ok, S::Error> {
        let mut m = s.serialize_map(Some(self.items.len()))?;
        for (k, v) in &self.items { m.serialize_entry(k, v)?; }
        m.end()
    }
}

#[derive(Debug, Clone, PartialEq, Eq)]
pub struct VSet<T> {
    pub items: Vec<T>,
}
impl<T> Default for VSet<T> {
    fn default() -> Self { VSet { items: Vec::new() } }
}
impl<T: Ord> VSet<T> {
    pub fn new() -> Self { VSet { items: Vec::new() } }
    pub fn len(&self) -> usize { self.items.len() }
    pub fn is_empty(&self) -> bool { self.items.is_empty() }
    pub fn contains(&self, t: &T) -> bool {
        let mut i = 0;
        while i < self.items.len() { if self.items[i] == *t { return true; } i += 1; }
        false
    }
    pub fn insert(&mut self, t: T) -> bool {
        if self.contains(&t) { false } else { self.items.push(t); true }
    }
    pub fn iter(&self) -> impl Iterator<Item = &T> { self.items.iter() }
}
impl<T: Ord> FromIterator<T> for VSet<T> {
    fn from_iter<I: IntoIterator<Item = T>>(iter: I) -> Self {
        let mut s = VSet::new();
        for t in iter { s.insert(t); }
        s
    }
}
impl<T: Ord, const N: usize> From<[T; N]> for VSet<T> {
    fn from(a: [T; N]) -> Self { a.into_iter().collect() }
}
impl<T: Serialize> Serialize for VSet<T> {
    fn serialize<S: Serializer>(&self, s: S) -> Result<S::Ok, S::Error> {
        let mut q = s.serialize_seq(Some(self.items.len()))?;
        for t in &self.items { q.serialize_element(t)?; }
        q.end()
    }
}
